"""Directed regression for finding D4 (fixed by 91241bc): after a plain compile of a program that uses a
Subroutine, building a Router whose bare-call action is that same Subroutine raised
`ValueError: list.remove(x): x not in list` from `_forgetting_context` (a regression of fix
6ee0337: recorders were removed from the stack by equality, and two empty recorders are equal).
usage: D4-...py <repo root>; exit 0 = router builds, exit 1 = the defect is back."""
import sys
sys.path.insert(0, sys.argv[1])
from pyteal import *
@Subroutine(TealType.none)
def h():
    return Pop(Int(1))
print(compileTeal(Seq(h(), Int(1)), Mode.Application, version=8)[:40].replace("\n","|"))
print(compileTeal(Seq(h(), Int(1)), Mode.Application, version=7)[:40].replace("\n","|"))
@ABIReturnSubroutine
def m(a: abi.Uint64, *, output: abi.Uint64):
    return output.set(a.get()+Int(1))
router = Router("r", BareCallActions(no_op=OnCompleteAction(action=h, call_config=CallConfig.CALL)))
router.add_method_handler(m)
try:
    ap, cl, c = router.compile_program(version=8)
except ValueError as e:
    print("FAIL", e)
    sys.exit(1)
print("PASS router ok", len(ap))
