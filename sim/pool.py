"""Driver-side handles on zygote interpreters."""

from __future__ import annotations

import json
import os
import queue
import subprocess
import sys
import threading

VERIF_ROOT = os.path.dirname(os.path.dirname(os.path.abspath(__file__)))
PYTHON = "/venv/bin/python"


class HarnessError(Exception):
    pass


class Zygote:
    def __init__(self, hashseed: int, repo_root: str):
        env = dict(os.environ)
        env["PYTHONHASHSEED"] = str(hashseed)
        env.pop("PYTHONPATH", None)
        env["PYTHONDONTWRITEBYTECODE"] = "1"
        self.hashseed = hashseed
        self.proc = subprocess.Popen(
            [PYTHON, "-X", "faulthandler", os.path.join(VERIF_ROOT, "sim", "zygote.py"), repo_root, VERIF_ROOT],
            stdin=subprocess.PIPE,
            stdout=subprocess.PIPE,
            env=env,
            cwd=VERIF_ROOT,
            text=True,
            bufsize=1,
        )
        hello = self.proc.stdout.readline()
        if not hello:
            raise HarnessError("zygote did not start")
        self.hello = json.loads(hello)
        if not self.hello.get("hello"):
            raise HarnessError(f"zygote refused: {self.hello}")
        self.lock = threading.Lock()
        self.jobs = 0

    def call(self, job: dict) -> dict:
        with self.lock:
            self.proc.stdin.write(json.dumps(job) + "\n")
            self.proc.stdin.flush()
            line = self.proc.stdout.readline()
            self.jobs += 1
        if not line:
            raise HarnessError("zygote died")
        resp = json.loads(line)
        if not resp.get("ok"):
            raise HarnessError(f"job failed: {resp.get('error')}")
        res = resp["result"]
        if "harness_error" in res:
            raise HarnessError(res["harness_error"] + "\n" + res.get("tb", ""))
        return res

    def close(self):
        try:
            self.proc.stdin.write(json.dumps({"kind": "quit"}) + "\n")
            self.proc.stdin.flush()
            self.proc.stdin.close()
        except Exception:
            pass
        try:
            self.proc.wait(timeout=5)
        except Exception:
            self.proc.kill()


class ZygotePool:
    """A fixed set of hash seeds, `replicas` zygotes per seed; borrow by hash seed."""

    def __init__(self, hashseeds: list[int], replicas: int, repo_root: str):
        self.hashseeds = list(hashseeds)
        self.repo_root = repo_root
        self.queues: dict[int, queue.Queue] = {h: queue.Queue() for h in hashseeds}
        self.all: list[Zygote] = []
        started: list = []
        errs: list = []

        def start(h):
            try:
                started.append(Zygote(h, repo_root))
            except Exception as e:  # noqa: BLE001
                errs.append(e)

        ths = [threading.Thread(target=start, args=(h,)) for h in hashseeds for _ in range(replicas)]
        for t in ths:
            t.start()
        for t in ths:
            t.join()
        if errs:
            for z in started:
                z.close()
            raise HarnessError(f"zygote start failed: {errs[0]}")
        for z in started:
            self.all.append(z)
            self.queues[z.hashseed].put(z)

    def call(self, hashseed: int, job: dict) -> dict:
        q = self.queues[hashseed]
        z = q.get()
        try:
            return z.call(job)
        except HarnessError:
            # replace a possibly wedged zygote
            try:
                z.close()
            except Exception:
                pass
            z = Zygote(hashseed, self.repo_root)
            self.all.append(z)
            raise
        finally:
            q.put(z)

    def close(self):
        for z in self.all:
            z.close()


if __name__ == "__main__":
    z = Zygote(0, "/repo")
    print(z.hello)
    print(z.call({"kind": "ping"}))
    z.close()
