"""Driver-side handles on zygote interpreters."""

from __future__ import annotations

import itertools
import json
import os
import subprocess
import threading

VERIF_ROOT = os.path.dirname(os.path.dirname(os.path.abspath(__file__)))
PYTHON = "/venv/bin/python"


class HarnessError(Exception):
    pass


class Zygote:
    """One pristine interpreter; many jobs may be in flight (each in its own forked child)."""

    def __init__(self, hashseed: int, repo_root: str, max_inflight: int = 8):
        env = dict(os.environ)
        env["PYTHONHASHSEED"] = str(hashseed)
        env.pop("PYTHONPATH", None)
        env["PYTHONDONTWRITEBYTECODE"] = "1"
        # mmap/munmap churn scales badly across processes in this VM: keep the heap on brk
        env["PYTHONMALLOC"] = "malloc"
        env["MALLOC_TRIM_THRESHOLD_"] = "2000000000"
        env["MALLOC_TOP_PAD_"] = "67108864"
        env["MALLOC_MMAP_THRESHOLD_"] = "1000000000"
        env["MALLOC_ARENA_MAX"] = "1"
        self.hashseed = hashseed
        self.proc = subprocess.Popen(
            [PYTHON, "-X", "faulthandler", os.path.join(VERIF_ROOT, "sim", "zygote.py"), repo_root, VERIF_ROOT],
            stdin=subprocess.PIPE,
            stdout=subprocess.PIPE,
            env=env,
            cwd=VERIF_ROOT,
        )
        hello = self.proc.stdout.readline()
        if not hello:
            raise HarnessError("zygote did not start")
        self.hello = json.loads(hello)
        if not self.hello.get("hello"):
            raise HarnessError(f"zygote refused: {self.hello}")
        self.wlock = threading.Lock()
        self.ids = itertools.count(1)
        self.pending: dict = {}
        self.plock = threading.Lock()
        self.sem = threading.Semaphore(max_inflight)
        self.dead = False
        self.jobs = 0
        self.reader = threading.Thread(target=self._read_loop, daemon=True)
        self.reader.start()

    def _read_loop(self):
        try:
            for line in self.proc.stdout:
                try:
                    resp = json.loads(line)
                except Exception:  # noqa: BLE001
                    continue
                with self.plock:
                    ent = self.pending.pop(resp.get("id"), None)
                if ent is not None:
                    ent[1] = resp
                    ent[0].set()
        finally:
            self.dead = True
            with self.plock:
                ents = list(self.pending.values())
                self.pending.clear()
            for ent in ents:
                ent[1] = {"ok": False, "error": "zygote died"}
                ent[0].set()

    def call(self, job: dict) -> dict:
        if self.dead:
            raise HarnessError("zygote died")
        with self.sem:
            jid = next(self.ids)
            job = dict(job)
            job["id"] = jid
            ent = [threading.Event(), None]
            with self.plock:
                self.pending[jid] = ent
            data = (json.dumps(job) + "\n").encode()
            with self.wlock:
                self.proc.stdin.write(data)
                self.proc.stdin.flush()
                self.jobs += 1
            if not ent[0].wait(timeout=job.get("timeout", 60) + 30):
                raise HarnessError("no response from zygote")
        resp = ent[1]
        if not resp.get("ok"):
            raise HarnessError(f"job failed: {resp.get('error')}")
        res = resp["result"]
        if "harness_error" in res:
            raise HarnessError(res["harness_error"] + "\n" + res.get("tb", ""))
        return res

    def close(self):
        try:
            with self.wlock:
                self.proc.stdin.write(b'{"kind": "quit"}\n')
                self.proc.stdin.flush()
                self.proc.stdin.close()
        except Exception:  # noqa: BLE001
            pass
        try:
            self.proc.wait(timeout=5)
        except Exception:  # noqa: BLE001
            self.proc.kill()


class ZygotePool:
    """One zygote per hash seed (`replicas` of each); jobs are routed by hash seed."""

    def __init__(self, hashseeds: list[int], replicas: int, repo_root: str, max_inflight: int = 8):
        self.hashseeds = list(hashseeds)
        self.repo_root = repo_root
        self.max_inflight = max_inflight
        self.lock = threading.Lock()
        self.by_seed: dict[int, list[Zygote]] = {h: [] for h in hashseeds}
        self.rr: dict[int, itertools.count] = {h: itertools.count() for h in hashseeds}
        self.all: list[Zygote] = []
        started: list = []
        errs: list = []

        def start(h):
            try:
                started.append(Zygote(h, repo_root, max_inflight))
            except Exception as e:  # noqa: BLE001
                errs.append(e)

        ths = [threading.Thread(target=start, args=(h,)) for h in hashseeds for _ in range(replicas)]
        for t in ths:
            t.start()
        for t in ths:
            t.join()
        if errs:
            for z in started:
                z.close()
            raise HarnessError(f"zygote start failed: {errs[0]}")
        for z in started:
            self.all.append(z)
            self.by_seed[z.hashseed].append(z)

    def call(self, hashseed: int, job: dict) -> dict:
        with self.lock:
            if hashseed not in self.by_seed:
                # a replay file may name a hash seed outside today's pool: start it on demand
                z = Zygote(hashseed, self.repo_root, self.max_inflight)
                self.all.append(z)
                self.by_seed[hashseed] = [z]
                self.rr[hashseed] = itertools.count()
        zs = self.by_seed[hashseed]
        z = zs[next(self.rr[hashseed]) % len(zs)]
        if z.dead:
            z2 = Zygote(hashseed, self.repo_root)
            self.all.append(z2)
            zs[zs.index(z)] = z2
            z = z2
        return z.call(job)

    def close(self):
        for z in self.all:
            z.close()


if __name__ == "__main__":
    z = Zygote(0, "/repo")
    print(z.hello)
    print(z.call({"kind": "ping"}))
    z.close()
