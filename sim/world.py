"""Child-side simulator: executes one recorded/planned op list against the real PyTeal
inside a forked child of a pristine zygote.  One integer (the plan's idhash seed) plus the
op list decide everything that happens here; nothing reads a clock or an unseeded PRNG.

Seams owned here (DESIGN.md §3.2):
  * identity hash of ScratchSlot objects (class-attribute patch, seeded stream)
  * abort at the N-th PyTeal function entry (sys.monitoring PY_START)            [F-D]
  * recursion headroom (sys.setrecursionlimit)                                   [F-C]
  * the algod peer (FakeAlgod passed through the public algod_client parameter) [F-E]
User-callback faults [F-B] and native failures [F-A] are part of the recipes.
"""

from __future__ import annotations

import contextlib
import gc
import hashlib
import json
import os
import random
import sys

import pyteal as pt
from feature_gates import FeatureGates
from pyteal.ast.scratch import ScratchSlot
from pyteal.ast.subroutine import SubroutineDefinition, SubroutineEval
from pyteal.ir.tealcomponent import TealComponent
import pyteal.compiler.compiler as _compiler_mod
import pyteal.compiler.scratchslots as _slots_mod

from sim import builder

# Recursion headroom given to every public-API call (run and reference alike).  PyTeal
# evaluates recursive ABI subroutines until RecursionError (abi/type.py:229 swallows it); at the
# default limit of 1000 that costs seconds per build, quadratic under the source-map gate.
HEADROOM = int(os.environ.get("SIM_HEADROOM", "300"))

REPO_PREFIXES: tuple = ()  # set by zygote: real paths of /repo/pyteal and /repo/feature_gates


def _proto_marker_set() -> bool:
    """reads of PyTeal internals are for probes / reach measures only (never verdicts) and must
    survive a refactor that renames them"""
    return getattr(SubroutineEval, "_current_proto", None) is not None


def _ctx_flags_ok() -> bool:
    ctx = getattr(TealComponent, "Context", None)
    return bool(getattr(ctx, "checkExprEquality", True) and getattr(ctx, "checkScratchSlotEquality", True))


class SimAbort(BaseException):
    """Injected abort (fault kind F-D).  BaseException so that no `except Exception`
    inside the library can swallow it and turn a fault into a silently different program."""


def sha(s: str | None) -> str | None:
    if s is None:
        return None
    return hashlib.sha256(s.encode("utf-8", "surrogatepass")).hexdigest()[:16]


# ----------------------------------------------------------------------------------------
# identity-hash seam
# ----------------------------------------------------------------------------------------
class IdHash:
    """Seeded object identity.  Every PyTeal class that inherits object.__hash__ (identity
    equality, so any per-object constant is a legal hash) gets a __hash__ that returns a value
    drawn from the run's PRNG the first time the object is hashed; the name `id` seen by PyTeal's
    own modules is shadowed by an injective seeded relabelling of the real id().  Iteration order of
    sets/dicts of such objects, and any ordering by id(), thereby become functions of the seed
    instead of memory addresses.  Objects whose identity was taken are kept alive for the rest of
    the (short-lived) child, so a value is never handed to a second object."""

    rng: random.Random | None = None
    table: dict = {}
    patched_classes = 0

    @staticmethod
    def identity_hashed_classes() -> list:
        import enum
        import inspect

        out, seen = [], set()
        for name in sorted(sys.modules):
            if not (name == "pyteal" or name.startswith("pyteal.") or name.startswith("feature_gates")):
                continue
            mod = sys.modules[name]
            for n in sorted(vars(mod)):
                c = vars(mod)[n]
                if not inspect.isclass(c) or c in seen:
                    continue
                seen.add(c)
                if not c.__module__.startswith(("pyteal", "feature_gates")):
                    continue
                if issubclass(c, (BaseException, enum.Enum)):
                    continue
                if c.__hash__ is object.__hash__:
                    out.append(c)
        return out

    @staticmethod
    def install(seed: int) -> None:
        IdHash.rng = rng = random.Random(seed)
        table = IdHash.table
        real_id = id

        def _vh(self):
            k = real_id(self)
            e = table.get(k)
            if e is None:
                e = (rng.getrandbits(61), self)
                table[k] = e
            return e[0]

        def _vid(o):
            return _vh(o)

        classes = IdHash.identity_hashed_classes()
        for c in classes:
            c.__hash__ = _vh  # type: ignore[assignment]
        IdHash.patched_classes = len(classes)
        for name in list(sys.modules):
            if name == "pyteal" or name.startswith("pyteal.") or name.startswith("feature_gates"):
                mod = sys.modules[name]
                if mod is not None and "id" not in vars(mod):
                    vars(mod)["id"] = _vid


# ----------------------------------------------------------------------------------------
# abort injector (F-D)
# ----------------------------------------------------------------------------------------
_CM_CODES = (
    contextlib._GeneratorContextManager.__enter__.__code__,
    contextlib._GeneratorContextManager.__exit__.__code__,
    contextlib.AbstractContextManager.__enter__.__code__,
)

TAG_PROTO = 1  # SubroutineEval._current_proto is set
TAG_EVAL = 2  # inside SubroutineEval.evaluate (a declaration is being built)
TAG_ROUTER = 4  # inside Router._build_impl (cleaning context active)
TAG_SMOFF = 8  # inside the gate-off recompile
TAG_PROBE = 16  # inside __probe_info
TAGNAMES = {"proto": TAG_PROTO, "eval": TAG_EVAL, "router": TAG_ROUTER, "smoff": TAG_SMOFF, "probe": TAG_PROBE}


class Injector:
    TOOL = 4
    mon = sys.monitoring
    installed = False
    mode = None  # None | "count" | "abort"
    count = 0
    target = 0
    fired_at = None
    tags: list = []
    paused = 0
    expected_gate = False

    @classmethod
    def install(cls):
        if cls.installed:
            return
        cls.mon.use_tool_id(cls.TOOL, "pyteal-sim")
        cls.mon.register_callback(cls.TOOL, cls.mon.events.PY_START, cls._cb)
        cls.installed = True

    _EXPLICIT_DUNDERS = ("__init__", "__call__", "__new__", "__teal__", "__init_subclass__", "__class_getitem__", "__getitem__", "__getattr__")

    @classmethod
    def _in_cm_protocol(cls, f) -> bool:
        # Special methods the interpreter calls implicitly (__hash__, __eq__, __bool__, __len__,
        # __str__, __del__ ...) may be entered from C paths that suppress or replace whatever they
        # raise (PyDict_GetItem under OrderedDict iteration turned an injected abort into a
        # KeyError): an abort is never placed at their entry, it is deferred to the next call.
        n0 = f.f_code.co_name
        if n0.startswith("__") and n0.endswith("__") and n0 not in cls._EXPLICIT_DUNDERS:
            return True
        while f is not None:
            c = f.f_code
            if c in _CM_CODES:
                return True
            # __exit__ methods of class-based context managers in the library
            if c.co_name in ("__enter__", "__exit__"):
                return True
            f = f.f_back
        return False

    @classmethod
    def _tags(cls, f) -> int:
        t = 0
        if _proto_marker_set():
            t |= TAG_PROTO
        if cls.expected_gate and not FeatureGates.sourcemap_enabled():
            t |= TAG_SMOFF
        while f is not None:
            n = f.f_code.co_name
            if n == "evaluate":
                t |= TAG_EVAL
            elif n == "_build_impl":
                t |= TAG_ROUTER
            elif n == "__probe_info":
                t |= TAG_PROBE
            f = f.f_back
        return t

    @classmethod
    def _cb(cls, code, offset):
        if not code.co_filename.startswith(REPO_PREFIXES):
            return cls.mon.DISABLE
        if cls.mode is None or cls.paused:
            return None
        f = sys._getframe(1)
        if cls.mode == "count":
            if cls._in_cm_protocol(f):
                cls.tags.append(-1)  # not eligible
            else:
                cls.tags.append(cls._tags(f))
            return None
        # abort mode
        cls.count += 1
        if cls.count >= cls.target and cls.fired_at is None:
            if cls._in_cm_protocol(f):
                return None  # defer: context-manager entry/exit is atomic
            cls.fired_at = cls.count
            raise SimAbort(f"injected abort at pyteal call #{cls.count} ({code.co_name})")
        return None

    @classmethod
    def start(cls, mode, target=0):
        cls.install()
        cls.mode = mode
        cls.count = 0
        cls.target = target
        cls.fired_at = None
        cls.tags = []
        cls.mon.set_events(cls.TOOL, cls.mon.events.PY_START)

    @classmethod
    def stop(cls):
        cls.mon.set_events(cls.TOOL, 0)
        cls.mode = None


# ----------------------------------------------------------------------------------------
# fake algod peer (F-E)
# ----------------------------------------------------------------------------------------
class FakeAlgodError(Exception):
    pass


class FakeAlgod:
    def __init__(self, plan: dict, log: list):
        self.plan = plan or {}
        self.log = log

    def status(self):
        m = self.plan.get("status", "ok")
        self.log.append("status:" + m)
        if m == "raise":
            raise FakeAlgodError("connection refused (simulated)")
        if m == "falsy":
            return {}
        return {"last-round": 1}

    def compile(self, teal, source_map=False):
        m = self.plan.get("compile", "ok")
        self.log.append("compile:" + m + ":" + sha(teal))
        if m == "raise":
            raise FakeAlgodError("algod compile failed (simulated)")
        if m == "nomap":
            return {"hash": "X", "result": ""}
        nlines = teal.count("\n") + 1
        # one PC per TEAL line, PC i -> line i: first group "AAAA", then "AACA" (line +1)
        mappings = ";".join(["AAAA"] + ["AACA"] * (nlines - 1))
        return {
            "hash": "X",
            "result": "",
            "sourcemap": {"version": 3, "sources": ["x.teal"], "names": [], "mappings": mappings},
        }


# ----------------------------------------------------------------------------------------
# probes
# ----------------------------------------------------------------------------------------
class Probes:
    counters: dict = {}
    tie_in_last_compile = False

    @classmethod
    def hit(cls, name, n=1):
        cls.counters[name] = cls.counters.get(name, 0) + n


class Forget:
    """Causal test used to attribute a violation to finding D3 (DESIGN.md 3.9).  D3's call site is
    the eager evaluation of the callee's scratch-convention declaration in
    `ReturnedValue.store_into` (pyteal/ast/abi/type.py): it runs whenever `x.set(f(...))` is
    constructed, also while the enclosing body is being evaluated for the OTHER calling
    convention or inside a compile that later aborts, and leaves `f`'s declaration cached with
    slot ids that are older than those of the routine that will contain it next time.
    When armed for program `pid`, every declaration that gets evaluated and cached THROUGH THAT
    CALL SITE (a `store_into` frame of abi/type.py is on the stack) during one of that program's
    compile/probe calls is dropped again when the call ends.  If a deviation from the
    fresh-process reference disappears under this patch, it was caused by declarations cached by
    the eager call site during the program's own earlier compiles and by nothing else.
    Declarations cached on the ordinary path (compileSubroutine) are never dropped, so a deviation
    that involves those - a different defect - stays a violation."""

    pid = None
    active: list | None = None
    dropped = 0
    narrow = True

    @staticmethod
    def _via_eager_site() -> bool:
        f = sys._getframe(2)
        while f is not None:
            c = f.f_code
            if c.co_name == "store_into" and c.co_filename.replace(os.sep, "/").endswith("pyteal/ast/abi/type.py"):
                return True
            f = f.f_back
        return False

    @classmethod
    def install(cls, pid):
        from pyteal.ast.subroutine import _SubroutineDeclByOption

        cls.pid = pid
        orig = _SubroutineDeclByOption.get_declaration_by_option

        def recording(self, fp_option=True):
            pre = self.option_map[fp_option] is not None
            d = orig(self, fp_option)
            if not pre and cls.active is not None and (not cls.narrow or cls._via_eager_site()):
                cls.active.append((self, fp_option))
            return d

        _SubroutineDeclByOption.get_declaration_by_option = recording

    @classmethod
    def begin(cls, op):
        if cls.pid is not None and op.get("p") == cls.pid and op["op"] in ("compile", "probe"):
            cls.active = []

    @classmethod
    def end(cls):
        if cls.active is not None:
            for decls, fp_option in cls.active:
                decls.option_map[fp_option] = None
                cls.dropped += 1
            cls.active = None


def _install_probes():
    try:
        _install_probes_impl()
    except Exception:  # noqa: BLE001 - reach counters only
        Probes.hit("probe_installation_failed")


def _install_probes_impl():
    orig_assign = _slots_mod.assignScratchSlotsToSubroutines

    def assign_with_tie_probe(subroutineBlocks):
        Injector.paused += 1
        try:
            try:
                g, loc = _slots_mod.collectScratchSlots(subroutineBlocks)
                allslots = set(g)
                for v in loc.values():
                    allslots |= v
                ids = {}
                for s in allslots:
                    if not s.isReservedSlot:
                        ids[s.id] = ids.get(s.id, 0) + 1
                if any(c > 1 for c in ids.values()):
                    Probes.hit("slot_id_tie_in_compilation")
                    Probes.tie_in_last_compile = True
                if len(allslots) > 128:
                    Probes.hit("more_than_128_slots")
            except Exception:
                pass
        finally:
            Injector.paused -= 1
        return orig_assign(subroutineBlocks)

    _compiler_mod.assignScratchSlotsToSubroutines = assign_with_tie_probe

    orig_reset = ScratchSlot.reset_slot_numbering.__func__

    def reset_probe(cls, *a, **k):
        # signature-transparent: whatever defaults the repository's method has stay in force
        before = getattr(cls, "nextSlotId", 0)
        r = orig_reset(cls, *a, **k)
        if getattr(cls, "nextSlotId", 0) < before:
            Probes.hit("slot_counter_rewind")
        return r

    ScratchSlot.reset_slot_numbering = classmethod(reset_probe)


# ----------------------------------------------------------------------------------------
# the world
# ----------------------------------------------------------------------------------------
def _churn_body(i):
    def churn_fn():
        return pt.Int(i)

    churn_fn.__name__ = f"churn{i}"
    return churn_fn


def _depth() -> int:
    f = sys._getframe()
    n = 0
    while f is not None:
        n += 1
        f = f.f_back
    return n


def state_signature() -> list:
    """Coarse signature of the hidden process state (for the 'distinct states reached' measure)."""
    try:
        sd = int(getattr(ScratchSlot, "nextSlotId", 256)) - 256
        nsub = int(getattr(SubroutineDefinition, "nextSubroutineId", 0))
        ntm = len(getattr(pt.Tmpl, "_session_templates", ()))
    except Exception:  # noqa: BLE001
        sd, nsub, ntm = 0, 0, 0
    return [
        min(max(sd, 0).bit_length(), 12),
        min(max(nsub, 0).bit_length(), 8),
        int(_proto_marker_set()),
        int(bool(FeatureGates.sourcemap_enabled())),
        int(bool(FeatureGates.sourcemap_debug())),
        min(ntm, 4),
    ]


class World:
    def __init__(self, job: dict):
        self.job = job
        self.specs: dict = job["programs"]
        self.envs: dict = {}
        self.events: list = []
        self.observations: list = []
        self.expected_gates = [False, False]  # sourcemap_enabled, sourcemap_debug
        self.gate_steps: dict = {}  # pid -> list of gate pair per executed step
        self.retired: set = set()
        self.faults_fired: dict = {}
        self.algod_log: list = []
        self.resolved_ops: list = []
        self.base_depth = None
        self.errmsgs: list = []  # free text (may contain ids/addresses): never compared
        self.in_reclimit_fault = False
        self.churn_keep: list = []
        self.shared_opts: dict = {}
        self.gate_attempt: dict = {}  # pid -> gates at the first attempt of each step
        self.build_log: dict = {}  # pid -> [[step, "ok" | exception class | "abort", op index]]
        self.cur_build_step = None
        self.limit_set = None
        self.limit_foreign = False
        self.hr_rng = random.Random(job["hr_seed"]) if job.get("hr_seed") is not None else None

    def fired(self, kind):
        self.faults_fired[kind] = self.faults_fired.get(kind, 0) + 1

    def env(self, pid) -> builder.ProgramEnv:
        if pid not in self.envs:
            self.envs[pid] = builder.ProgramEnv(self.specs[pid])
            self.envs[pid].shared_pool = self.shared_opts
            self.gate_steps[pid] = []
            self.gate_attempt[pid] = []
            self.build_log[pid] = []
        return self.envs[pid]

    # -- op bodies (each is ONE public API call or one builder step) -----------------
    def _do(self, op: dict):
        k = op["op"]
        if not self.in_reclimit_fault:
            # Recursion headroom of the op.  References always get HEADROOM; a history gets
            # HEADROOM plus a seeded per-op offset (resolved into the op as "hr"): the stack depth
            # a public call is entered at is a property of the calling process, like its hash seed.
            hr = op.get("hr")
            if hr is None:
                hr = self.hr_rng.randrange(0, 48) if self.hr_rng is not None else 0
                op["hr"] = hr
            cur = sys.getrecursionlimit()
            if self.limit_set is not None and cur != self.limit_set:
                # somebody else (the library under test) changed the interpreter's recursion limit and
                # left it changed: that is process state like any other - the harness stops owning it
                if not self.limit_foreign:
                    Probes.hit("recursion_limit_changed_behind_the_harness")
                self.limit_foreign = True
            if not self.limit_foreign:
                self.limit_set = _depth() + HEADROOM + hr
                sys.setrecursionlimit(self.limit_set)
        if k == "build":
            env = self.env(op["p"])
            i = env.next_step
            if i >= len(env.spec["steps"]):
                return ("skip", "nosteps")
            ga = self.gate_attempt[op["p"]]
            if len(ga) <= i:
                ga.append(list(self.expected_gates))
            self.cur_build_step = i
            env.do_step(i)
            env.next_step = i + 1
            self.gate_steps[op["p"]].append(list(self.expected_gates))
            return ("ok", None, None)
        if k == "compile":
            env = self.env(op["p"])
            spec = env.spec
            if spec["kind"] == "router" or spec.get("router"):
                if env.router is None:
                    return ("skip", "norouter")
            else:
                if env.ast is None:
                    return ("skip", "notbuilt")
            algod = None
            sm = op["opts"].get("sm")
            if sm and sm.get("pcs"):
                algod = FakeAlgod(op.get("algod"), self.algod_log)
            ap, cl = env.compile(op["opts"], algod=algod)
            return ("ok", ap, cl)
        if k == "probe":
            env = self.env(op["p"])
            if op["k"] >= len(env.subs) or env.subs[op["k"]] is None:
                return ("skip", "nosub")
            r = env.probe(op["k"], op.get("what", "type_of"))
            return ("ok", r, None)
        if k == "gate":
            FeatureGates.set(op["feature"], op["value"])
            self.expected_gates[0 if op["feature"] == "sourcemap_enabled" else 1] = op["value"]
            return ("ok", None, None)
        if k == "drop":
            # the user code that owned this (noise) program lets go of it
            env = self.envs.pop(op["p"], None)
            self.retired.add(op["p"])
            del env
            gc.collect()
            return ("ok", None, None)
        if k == "testctx":
            # someone's unit test in the same process: PyTeal's public comparison contexts
            import contextlib as _cl

            with _cl.ExitStack() as st:
                if op["which"] in ("expr", "both"):
                    st.enter_context(TealComponent.Context.ignoreExprEquality())
                if op["which"] in ("slot", "both"):
                    st.enter_context(TealComponent.Context.ignoreScratchSlotEquality())
                e = pt.Int(1)
                a = pt.TealSimpleBlock([pt.TealOp(e, pt.Op.int, 1)])
                b = pt.TealSimpleBlock([pt.TealOp(e, pt.Op.int, 1 if op.get("inner") != "assert" else 2)])
                if op.get("inner") == "raise":
                    raise builder.UserFault("test body raised inside the comparison context")
                assert a == b, "expected == actual failed"
            return ("ok", None, None)
        if k == "churn":
            # unrelated code in the same process allocating PyTeal objects in bulk
            n = op.get("n", 10)
            w = op.get("what")
            if w == "slots":
                junk = [pt.ScratchSlot() for _ in range(n)]
            elif w == "vars":
                junk = [pt.ScratchVar(pt.TealType.uint64) for _ in range(n)]
            elif w == "slots_until":
                # unrelated allocation until the process-wide slot-id counter reaches n
                junk = []
                guard = 0
                while int(getattr(ScratchSlot, "nextSlotId", n)) < n and guard < 1_100_000:
                    pt.ScratchSlot()
                    guard += 1
            elif w == "abi":
                junk = [pt.abi.Uint64() for _ in range(n)]
            elif w == "decls":
                # an unrelated program with n subroutines, compiled: n declarations evaluated and kept
                subs = [pt.Subroutine(pt.TealType.uint64)(_churn_body(i)) for i in range(n)]
                junk = [subs]
                for c in range(0, n, 40):  # several unrelated programs of 40 subroutines each
                    prog = pt.Seq(*[pt.Pop(f()) for f in subs[c : c + 40]], pt.Int(1))
                    junk.append(pt.compileTeal(prog, pt.Mode.Application, version=6 if n % 2 else 8))
            else:
                junk = [pt.Subroutine(pt.TealType.uint64)(_churn_body(i)) for i in range(n)]
            self.churn_keep.append(junk if n % 2 else None)
            return ("ok", None, None)
        if k == "gc":
            gc.collect()
            junk = [object() for _ in range(op.get("n", 1000))]
            del junk
            return ("ok", None, None)
        raise KeyError(k)

    def _guarded(self, op):
        """Run op, mapping exceptions to outcomes.  Returns outcome tuple."""
        try:
            return self._do(op)
        except SimAbort as e:
            return ("abort", str(e))
        except RecursionError as e:
            return ("err", "RecursionError", "")
        except BaseException as e:  # noqa: BLE001 - outcome classification is the point
            # formatting the message calls PyTeal's __str__: the op is over, no fault lands here
            Injector.paused += 1
            try:
                try:
                    msg = str(e)[:300]
                    if os.environ.get("SIM_TB"):
                        import traceback

                        msg = "".join(traceback.format_exception(e))[-2500:]
                except BaseException:  # noqa: BLE001
                    msg = ""
            finally:
                Injector.paused -= 1
            return ("err", type(e).__name__, msg)

    def _dry_count(self, op) -> list:
        """Fork; run `op` in the copy with a counting monitor; return the per-call tag list."""
        r, w = os.pipe()
        pid = os.fork()
        if pid == 0:
            try:
                os.close(r)
                Injector.expected_gate = self.expected_gates[0]
                Injector.start("count")
                try:
                    self._guarded(op)
                finally:
                    Injector.stop()
                data = json.dumps(Injector.tags).encode()
                with os.fdopen(w, "wb") as f:
                    f.write(data)
            finally:
                os._exit(0)
        os.close(w)
        with os.fdopen(r, "rb") as f:
            data = f.read()
        os.waitpid(pid, 0)
        return json.loads(data) if data else []

    def _resolve_abort(self, op, fault) -> int | None:
        if fault.get("N") is not None:
            return fault["N"]
        tags = self._dry_count(op)
        elig = [i + 1 for i, t in enumerate(tags) if t >= 0]
        if not elig:
            return None
        bias = fault.get("bias", "uniform")
        pool = elig
        if bias != "uniform":
            bit = TAGNAMES[bias]
            b = [i + 1 for i, t in enumerate(tags) if t >= 0 and (t & bit)]
            if b:
                pool = b
                fault["bias_hit"] = True
        n = pool[min(int(fault["u"] * len(pool)), len(pool) - 1)]
        fault["N"] = n
        fault["total_calls"] = len(tags)
        return n

    def step(self, idx: int, op: dict):
        op = json.loads(json.dumps(op))  # private copy, will be resolved
        fault = op.get("fault")
        Probes.tie_in_last_compile = False
        pre_counters = dict(Probes.counters)
        if self.base_depth is None:
            self.base_depth = _depth()
        Forget.begin(op)
        try:
            out = self._step_inner(op, fault)
        finally:
            Forget.end()
        self._record(idx, op, out)

    def _step_inner(self, op, fault):
        if op.get("p") in self.retired and op["op"] != "build":
            out = ("skip", "retired")
        elif fault and fault["kind"] == "abort":
            n = self._resolve_abort(op, fault)
            if n is None:
                out = self._guarded(op)
            else:
                Injector.expected_gate = self.expected_gates[0]
                Injector.start("abort", n)
                try:
                    out = self._guarded(op)
                finally:
                    Injector.stop()
                if Injector.fired_at is not None and out[0] != "abort":
                    # The abort fired but something else came out of the call.  CPython itself does
                    # this: an exception raised inside a __hash__/__eq__ that the interpreter calls
                    # from an error-suppressing C path (PyDict_GetItem under OrderedDict iteration)
                    # is swallowed and replaced (KeyError).  The op is still a fault carrier: its own
                    # outcome is never compared with a fault-free reference.
                    Probes.hit("abort_surfaced_as_other_outcome")
                    out = ("abort", "injected abort surfaced as " + str(out[0]) + ":" + str(out[1] if len(out) > 1 else ""))
                if out[0] == "abort":
                    self.fired("abort")
                    if fault.get("bias_hit"):
                        self.fired("abort@" + fault["bias"])
                    self._after_abort(op)
                    if op["op"] == "build" and op["p"] not in self.retired:
                        # the partial statement is discarded and rebuilt at once (same op)
                        out2 = self._guarded(op)
                        out = ("abort+retry:" + out2[0],) + tuple(out2[1:])
        elif fault and fault["kind"] == "reclimit":
            old = sys.getrecursionlimit()
            sys.setrecursionlimit(_depth() + fault["headroom"])
            self.in_reclimit_fault = True
            try:
                out = self._guarded(op)
            finally:
                self.in_reclimit_fault = False
                sys.setrecursionlimit(old)
                self.limit_set = old if not self.limit_foreign else self.limit_set
            if out[0] == "err" and out[1] == "RecursionError":
                self.fired("reclimit")
        else:
            out = self._guarded(op)
            if out[0] == "err":
                if out[1] == "UserFault":
                    self.fired("user_callback")
                elif out[1] in ("FakeAlgodError", "AlgodClientError", "ResourceWarning") or (
                    op.get("algod") and out[1] == "TealInternalError" and "sourcemap" in out[2]
                ):
                    self.fired("peer")
                elif out[1].startswith("Teal") or out[1] in ("SourceMapDisabledError",):
                    self.fired("native_failure")
                else:
                    self.fired("other_exception:" + out[1])
        return out

    def _record(self, idx, op, out):
        ev = {"i": idx, "op": op["op"], "p": op.get("p"), "res": out[0]}
        if op["op"] == "build" and out[0] != "skip" and self.cur_build_step is not None:
            r0 = out[0]
            cls = "ok" if r0 in ("ok", "abort+retry:ok") else (out[1] if r0 in ("err", "abort+retry:err") else "abort")
            self.build_log[op["p"]].append([self.cur_build_step, cls, idx])
            self.cur_build_step = None
        if out[0] == "ok" and op["op"] == "compile":
            ev["d"] = [sha(out[1]), sha(out[2])]
        elif out[0] == "err":
            ev["cls"] = out[1]
            self.errmsgs.append([idx, out[1], out[2]])
        elif out[0] == "skip":
            ev["why"] = out[1]
        elif out[0] == "ok" and op["op"] == "probe":
            ev["r"] = out[1]
        # invariants at quiescence (early warnings, not verdicts)
        inv = []
        if _proto_marker_set():
            inv.append("proto_marker_stale")
        if [bool(FeatureGates.sourcemap_enabled()), bool(FeatureGates.sourcemap_debug())] != self.expected_gates:
            inv.append("gate_not_restored")
        if not _ctx_flags_ok():
            inv.append("context_flag")
        if inv:
            ev["inv"] = inv
            for x in inv:
                Probes.hit("inv:" + x)
        if Probes.tie_in_last_compile:
            ev["tie"] = True
        ev["st"] = state_signature()
        self.events.append(ev)
        self.resolved_ops.append(op)

        if op["op"] == "compile" and op.get("obs") and out[0] in ("ok", "err"):
            env = self.env(op["p"])
            if op["p"] not in self.retired:
                self.observations.append(
                    {
                        "i": idx,
                        "p": op["p"],
                        "opts": op["opts"],
                        "algod": op.get("algod"),
                        "nsteps": env.next_step,
                        "gate_steps": list(self.gate_steps[op["p"]]),
                        "gate_compile": list(self.expected_gates),
                        "tie": bool(Probes.tie_in_last_compile),
                        "outcome": ["ok", out[1], out[2]] if out[0] == "ok" else ["err", out[1], out[2]],
                    }
                )

    def _after_abort(self, op):
        k = op["op"]
        if k == "build":
            env = self.env(op["p"])
            st = env.spec["steps"][env.next_step] if env.next_step < len(env.spec["steps"]) else None
            if st is not None and st[0] in ("add_method", "router_new", "defsub"):
                # aborted mutation of a user-visible object: its state is undefined -> retire
                self.retired.add(op["p"])
            elif st is not None and st[0] == "stmt":
                # statements that register named objects in the env are not retry-safe
                self.retired.add(op["p"]) if self._stmt_registers(st[1]) else None
        # aborted compile / probe: the program stays a target (that is the property)

    @staticmethod
    def _stmt_registers(s) -> bool:
        return s[0] in ("newvar", "newdyn", "newabi")

    def run(self) -> dict:
        for idx, op in enumerate(self.job["ops"]):
            self.step(op.get("oi", idx), op)
        return {
            "events": self.events,
            "observations": self.observations,
            "resolved_ops": self.resolved_ops,
            "faults_fired": self.faults_fired,
            "probes": Probes.counters,
            "retired": sorted(self.retired),
            "build_log": self.build_log,
            "gate_attempt": self.gate_attempt,
            "algod_log": self.algod_log,
            "errmsgs": self.errmsgs,
        }


def run_history(job: dict) -> dict:
    """Entry point for a 'run' / 'replay' job."""
    if job.get("idhash_seed") is not None:
        IdHash.install(job["idhash_seed"])
    _install_probes()
    if job.get("forget_decls_for") is not None:
        Forget.install(job["forget_decls_for"])
    res = World(job).run()
    res["decls_dropped"] = Forget.dropped
    return res


def run_reference(job: dict) -> dict:
    """Entry point for a 'ref' job: build one program alone in a pristine process and
    compile it once.  job: {spec, nsteps, gate_steps, gate_compile, opts, algod, idhash_seed?}"""
    if job.get("idhash_seed") is not None:
        IdHash.install(job["idhash_seed"])
    env = builder.ProgramEnv(job["spec"])
    gates = job.get("gate_steps") or []
    sys.setrecursionlimit(_depth() + HEADROOM)
    try:
        for i in range(job["nsteps"]):
            g = gates[i] if i < len(gates) else [False, False]
            FeatureGates.set_sourcemap_enabled(g[0])
            FeatureGates.set_sourcemap_debug(g[1])
            env.do_step(i)
            env.next_step = i + 1
        g = job.get("gate_compile") or [False, False]
        FeatureGates.set_sourcemap_enabled(g[0])
        FeatureGates.set_sourcemap_debug(g[1])
        algod = None
        sm = job["opts"].get("sm")
        if sm and sm.get("pcs"):
            algod = FakeAlgod(job.get("algod"), [])
        ap, cl = env.compile(job["opts"], algod=algod)
        return {"outcome": ["ok", ap, cl]}
    except RecursionError:
        return {"outcome": ["err", "RecursionError", ""]}
    except BaseException as e:  # noqa: BLE001
        return {"outcome": ["err", type(e).__name__, str(e)[:300]]}


def _ref_compile_in_grandchild(env, ob) -> list:
    """fork; the copy sets the gates, compiles once and reports; the builder process itself never
    compiles, so every reference compile starts from exactly 'P built alone in a pristine process'"""
    r, w = os.pipe()
    pid = os.fork()
    if pid == 0:
        out = ["err", "HarnessError", "grandchild failed"]
        try:
            os.close(r)
            try:
                sys.setrecursionlimit(_depth() + HEADROOM)
                g = ob.get("gate_compile") or [False, False]
                FeatureGates.set_sourcemap_enabled(g[0])
                FeatureGates.set_sourcemap_debug(g[1])
                algod = None
                sm = ob["opts"].get("sm")
                if sm and sm.get("pcs"):
                    algod = FakeAlgod(ob.get("algod"), [])
                ap, cl = env.compile(ob["opts"], algod=algod)
                out = ["ok", ap, cl]
            except RecursionError:
                out = ["err", "RecursionError", ""]
            except BaseException as e:  # noqa: BLE001
                try:
                    msg = str(e)[:300]
                except BaseException:  # noqa: BLE001
                    msg = ""
                out = ["err", type(e).__name__, msg]
            with os.fdopen(w, "wb") as f:
                f.write(json.dumps(out).encode())
        finally:
            os._exit(0)
    os.close(w)
    with os.fdopen(r, "rb") as f:
        data = f.read()
    os.waitpid(pid, 0)
    if not data:
        return ["err", "HarnessError", "no data from reference grandchild"]
    return json.loads(data)


def run_references(job: dict) -> dict:
    """Entry point for a 'refs' job: the fresh-process references of ALL observed compiles of one
    program.  The program is built alone, step by step, in this pristine process (natural object
    hashes, the reference's own hash seed); whenever the number of built steps equals the step
    count an observation was made at, a copy of the process is forked for that observation and
    compiles once.  job: {spec, gate_steps, observations: [{i, nsteps, gate_compile, opts, algod}]}
    Returns {"outcomes": {str(i): outcome}, "build": [per-step "ok" | exception class]}."""
    env = builder.ProgramEnv(job["spec"])
    env.shared_pool = {}
    gates = job.get("gate_steps") or []
    obs = sorted(job["observations"], key=lambda o: (o["nsteps"], o["i"]))
    outcomes: dict = {}
    memo: dict = {}
    build: list = []
    built = 0
    stuck = None
    nmax = max([o["nsteps"] for o in obs] + [job.get("build_upto", 0)])
    oi = 0
    while True:
        while oi < len(obs) and obs[oi]["nsteps"] == built:
            # the reference is a pure function of (recipe prefix, gates, options, peer plan): observations
            # that agree on all of them share one forked compile
            key = json.dumps([built, obs[oi].get("gate_compile"), obs[oi]["opts"], obs[oi].get("algod")], sort_keys=True)
            if key not in memo:
                memo[key] = _ref_compile_in_grandchild(env, obs[oi])
            outcomes[str(obs[oi]["i"])] = memo[key]
            oi += 1
        if built >= nmax or stuck is not None:
            break
        g = gates[built] if built < len(gates) else [False, False]
        FeatureGates.set_sourcemap_enabled(g[0])
        FeatureGates.set_sourcemap_debug(g[1])
        sys.setrecursionlimit(_depth() + HEADROOM)
        try:
            env.do_step(built)
            env.next_step = built + 1
            build.append("ok")
            built += 1
        except RecursionError:
            build.append("RecursionError")
            stuck = "RecursionError"
        except BaseException as e:  # noqa: BLE001
            build.append(type(e).__name__)
            stuck = type(e).__name__
    for o in obs[oi:]:
        # the history built more steps than a pristine process can: reported as a build mismatch
        outcomes[str(o["i"])] = ["err", "BuildStuck:" + str(stuck), ""]
    return {"outcomes": outcomes, "build": build, "forked_compiles": len(memo)}
