"""Zygote server: a pristine interpreter (PYTHONHASHSEED fixed by the parent's env) that has
imported PyTeal from the repository under test and done nothing else.  For every job line
on stdin it forks; the child executes the job against the real library and reports through a
pipe; the zygote itself never touches PyTeal state, so every job starts from exactly
"just imported pyteal".

Usage:  python zygote.py <repo_root> <verif_root>
Protocol: one JSON object per line on stdin / stdout.
"""

import json
import os
import select
import signal
import sys
import time  # used only for the wall-clock watchdog of a child, never inside a run


def main():
    repo_root = os.path.realpath(sys.argv[1])
    verif_root = os.path.realpath(sys.argv[2])
    sys.path.insert(0, repo_root)
    sys.path.insert(1, verif_root)
    import pyteal  # noqa: F401
    import feature_gates  # noqa: F401

    if not os.path.realpath(pyteal.__file__).startswith(repo_root + os.sep):
        print(json.dumps({"hello": False, "error": f"pyteal imported from {pyteal.__file__}, wanted {repo_root}"}), flush=True)
        return 2
    from sim import world

    world.REPO_PREFIXES = (
        os.path.join(repo_root, "pyteal") + os.sep,
        os.path.join(repo_root, "feature_gates") + os.sep,
    )
    # resolve symlinks the way code objects see them
    import pyteal.ast.expr as _e

    if not _e.__file__.startswith(world.REPO_PREFIXES):
        world.REPO_PREFIXES = world.REPO_PREFIXES + (os.path.dirname(os.path.dirname(_e.__file__)) + os.sep,)

    out = sys.stdout
    print(
        json.dumps(
            {
                "hello": True,
                "pid": os.getpid(),
                "hashseed": os.environ.get("PYTHONHASHSEED"),
                "pyteal": pyteal.__file__,
                "python": sys.version.split()[0],
            }
        ),
        flush=True,
    )
    import gc

    gc.collect()
    gc.freeze()

    for line in sys.stdin:
        line = line.strip()
        if not line:
            continue
        job = json.loads(line)
        if job.get("kind") == "quit":
            break
        timeout = job.get("timeout", 60)
        r, w = os.pipe()
        pid = os.fork()
        if pid == 0:
            # ---- child: run the job against the real library -----------------------------
            code = 0
            try:
                os.close(r)
                import faulthandler

                faulthandler.enable()
                faulthandler.dump_traceback_later(max(timeout - 2, 1), exit=True)
                try:
                    if job["kind"] in ("run", "replay"):
                        res = world.run_history(job)
                    elif job["kind"] == "ref":
                        res = world.run_reference(job)
                    elif job["kind"] == "ping":
                        res = {"pong": True}
                    else:
                        res = {"harness_error": "unknown job kind"}
                except BaseException as e:  # noqa: BLE001
                    import traceback

                    res = {"harness_error": f"{type(e).__name__}: {e}", "tb": traceback.format_exc()[-3000:]}
                data = json.dumps(res).encode()
                with os.fdopen(w, "wb") as f:
                    f.write(data)
            except BaseException:  # noqa: BLE001
                code = 3
            finally:
                os._exit(code)
        # ---- zygote: wait for the child with a wall-clock watchdog -----------------------
        os.close(w)
        chunks = []
        deadline = time.monotonic() + timeout
        timed_out = False
        while True:
            left = deadline - time.monotonic()
            if left <= 0:
                timed_out = True
                break
            rl, _, _ = select.select([r], [], [], left)
            if not rl:
                timed_out = True
                break
            b = os.read(r, 1 << 16)
            if not b:
                break
            chunks.append(b)
        os.close(r)
        if timed_out:
            try:
                os.kill(pid, signal.SIGKILL)
            except ProcessLookupError:
                pass
        _, status = os.waitpid(pid, 0)
        if timed_out:
            resp = {"ok": False, "error": "timeout"}
        else:
            data = b"".join(chunks)
            if not data:
                resp = {"ok": False, "error": f"child died status={status}"}
            else:
                resp = {"ok": True, "result": json.loads(data)}
        out.write(json.dumps(resp))
        out.write("\n")
        out.flush()
    return 0


if __name__ == "__main__":
    sys.exit(main())
