"""Zygote server: a pristine interpreter (PYTHONHASHSEED fixed by the parent's env) that has
imported PyTeal from the repository under test and done nothing else.  For every job line
on stdin it forks; the child executes the job against the real library and reports through a
pipe; the zygote itself never touches PyTeal state, so every job starts from exactly
"just imported pyteal".  Several children may be in flight at once (they share the zygote's
pages copy-on-write, which is what makes parallelism pay off on this VM).

Usage:  python zygote.py <repo_root> <verif_root>
Protocol: one JSON object per line on stdin ({"id":..,"kind":..}) / stdout ({"id":..,"ok":..}).
"""

import json
import os
import select
import signal
import sys
import time  # used only for the wall-clock watchdog of a child, never inside a run


def child_main(job, w, world):
    code = 0
    try:
        import faulthandler

        timeout = job.get("timeout", 60)
        faulthandler.enable()
        faulthandler.dump_traceback_later(max(timeout - 2, 1), exit=True)
        try:
            import resource as _rs

            _a = _rs.getrusage(_rs.RUSAGE_SELF)
            _t = time.monotonic()
            if job["kind"] in ("run", "replay"):
                res = world.run_history(job)
            elif job["kind"] == "ref":
                res = world.run_reference(job)
            elif job["kind"] == "refs":
                res = world.run_references(job)
            elif job["kind"] == "ping":
                res = {"pong": True}
            else:
                res = {"harness_error": "unknown job kind"}
        except BaseException as e:  # noqa: BLE001
            import traceback

            res = {"harness_error": f"{type(e).__name__}: {e}", "tb": traceback.format_exc()[-3000:]}
        if job.get("timing") and isinstance(res, dict):
            _b = _rs.getrusage(_rs.RUSAGE_SELF)
            res["_timing"] = {
                "wall": time.monotonic() - _t,
                "user": _b.ru_utime - _a.ru_utime,
                "sys": _b.ru_stime - _a.ru_stime,
                "minflt": _b.ru_minflt - _a.ru_minflt,
            }
        data = json.dumps(res).encode()
        with os.fdopen(w, "wb") as f:
            f.write(data)
    except BaseException:  # noqa: BLE001
        code = 3
    finally:
        os._exit(code)


def main():
    repo_root = os.path.realpath(sys.argv[1])
    verif_root = os.path.realpath(sys.argv[2])
    sys.path.insert(0, repo_root)
    sys.path.insert(1, verif_root)
    import pyteal  # noqa: F401
    import feature_gates  # noqa: F401

    if not os.path.realpath(pyteal.__file__).startswith(repo_root + os.sep):
        print(json.dumps({"hello": False, "error": f"pyteal imported from {pyteal.__file__}, wanted {repo_root}"}), flush=True)
        return 2
    from sim import world

    world.REPO_PREFIXES = (
        os.path.join(repo_root, "pyteal") + os.sep,
        os.path.join(repo_root, "feature_gates") + os.sep,
    )

    out = sys.stdout
    print(
        json.dumps(
            {
                "hello": True,
                "pid": os.getpid(),
                "hashseed": os.environ.get("PYTHONHASHSEED"),
                "pyteal": pyteal.__file__,
                "python": sys.version.split()[0],
            }
        ),
        flush=True,
    )
    if os.environ.get("SIM_STUB_CHECKCACHE", "1") == "1":
        # linecache.checkcache() stat()s every frame's file for every Expr constructed
        # (traceback.format_stack in Expr.__init__); it only revalidates cached source text,
        # which cannot change during a run and never reaches TEAL.  Stubbed for throughput.
        import linecache

        linecache.checkcache = lambda filename=None: None

    import gc

    gc.collect()
    gc.freeze()

    stdin_fd = sys.stdin.fileno()
    inbuf = b""
    live = {}  # read fd -> [job id, pid, chunks, deadline]
    eof = False
    while not eof or live:
        fds = list(live.keys())
        if not eof:
            fds.append(stdin_fd)
        now = time.monotonic()
        tmo = None
        if live:
            tmo = max(0.0, min(v[3] for v in live.values()) - now)
        rl, _, _ = select.select(fds, [], [], tmo)
        now = time.monotonic()
        for fd in rl:
            if fd == stdin_fd:
                b = os.read(stdin_fd, 1 << 20)
                if not b:
                    eof = True
                    continue
                inbuf += b
                while b"\n" in inbuf:
                    line, inbuf = inbuf.split(b"\n", 1)
                    line = line.strip()
                    if not line:
                        continue
                    job = json.loads(line)
                    if job.get("kind") == "quit":
                        eof = True
                        break
                    r, w = os.pipe()
                    pid = os.fork()
                    if pid == 0:
                        os.close(r)
                        for ofd in live:
                            try:
                                os.close(ofd)
                            except OSError:
                                pass
                        child_main(job, w, world)
                    os.close(w)
                    live[r] = [job.get("id"), pid, [], time.monotonic() + job.get("timeout", 60)]
            else:
                ent = live[fd]
                b = os.read(fd, 1 << 16)
                if b:
                    ent[2].append(b)
                    continue
                os.close(fd)
                del live[fd]
                _, status = os.waitpid(ent[1], 0)
                data = b"".join(ent[2])
                if not data:
                    resp = {"id": ent[0], "ok": False, "error": f"child died status={status}"}
                    out.write(json.dumps(resp) + "\n")
                else:
                    # pass the child's JSON through without re-parsing it
                    out.write('{"id": %s, "ok": true, "result": %s}\n' % (json.dumps(ent[0]), data.decode()))
                out.flush()
        for fd in [f for f, v in live.items() if v[3] <= now]:
            ent = live.pop(fd)
            try:
                os.kill(ent[1], signal.SIGKILL)
            except ProcessLookupError:
                pass
            os.close(fd)
            os.waitpid(ent[1], 0)
            out.write(json.dumps({"id": ent[0], "ok": False, "error": "timeout"}) + "\n")
            out.flush()
    return 0


if __name__ == "__main__":
    sys.exit(main())
