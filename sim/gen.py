"""Seeded generator: one integer -> sessions, program recipes, op schedule, fault plan.

Pure Python, no PyTeal import, no clock, no unseeded randomness; dict/set iteration is
avoided in favour of lists so that the output is independent of PYTHONHASHSEED.
"""

from __future__ import annotations

import json
import os
import random

from sim.zoo import ZOO_ACC, ZOO_FN

UINT_ABI = ["uint64", "uint32", "uint16", "uint8", "byte", "bool"]
BYTES_ABI = ["string", "address"]
COMPOSITE_ABI = ["(uint64,uint8)", "(bool,uint64,bool)", "uint64[]", "uint16[3]"]
ELEMS = {
    "(uint64,uint8)": ["uint64", "uint8"],
    "(bool,uint64,bool)": ["bool", "uint64", "bool"],
    "uint64[]": ["uint64"],
    "uint16[3]": ["uint16", "uint16", "uint16"],
}
VALUE_ABI = UINT_ABI + BYTES_ABI + COMPOSITE_ABI
NT_MENU = {"ntA": ["uint64", "uint8"], "ntB": ["bool", "uint64", "bool"], "ntC": ["uint64", "string"], "ntD": ["uint16"]}
REF_TXN_ABI = ["account", "asset", "application", "pay", "txn"]
MAXU = {"uint64": 2**64 - 1, "uint32": 2**32 - 1, "uint16": 65535, "uint8": 255, "byte": 255, "bool": 1}

FAULT_KINDS = ["native", "user", "reclimit", "abort", "peer"]
# Real programs shipped with the repository (examples/ and the programs its unit tests build);
# modules that flip the process-global source-map gate when imported are left out (the schedule
# must own the gates: examples.application.sourcemap, examples.signature.dutch_auction):
# (module, attribute, call arguments | None for a module-level object, mode, versions that compile)
EXAMPLES = [
    ["examples.application.asset", "approval_program", [], "app", 2],
    ["examples.application.asset", "clear_state_program", [], "app", 2],
    ["examples.application.security_token", "approval_program", [], "app", 2],
    ["examples.application.security_token", "clear_state_program", [], "app", 2],
    ["examples.application.vote", "approval_program", [], "app", 2],
    ["examples.application.vote", "clear_state_program", [], "app", 2],
    ["examples.application.opup", "approval_program_explicit_ensure", [], "app", 6],
    ["examples.application.opup", "approval_program_oncall_ensure", [], "app", 6],
    ["examples.application.opup", "approval_program_explicit_maximize", [], "app", 5],
    ["examples.application.opup", "approval_program_oncall_maximize", [], "app", 5],
    ["examples.signature.atomic_swap", "htlc", [], "sig", 2],
    ["examples.signature.basic", "bank_for_account", ["ZZAF5ARA4MEC5PVDOP64JM5O5MQST63Q2KOY2FLYFLXXD3PFSNJJBYAFZM"], "sig", 2],
    ["examples.signature.periodic_payment", "periodic_payment", [], "sig", 2],
    ["examples.signature.recurring_swap", "recurring_swap", [], "sig", 2],
    ["examples.signature.split", "split", [], "sig", 2],
    ["examples.signature.factorizer_game", "logicsig", [1, 5, 7], "sig", 4],
    ["examples.application.abi.algobank", "router", None, "router", 6],
    ["tests.unit.pass_by_ref_test", "wilt_the_stilt", [], "app", 5],
    ["tests.unit.pass_by_ref_test", "swapper", [], "app", 5],
    ["tests.unit.pass_by_ref_test", "sub_logcat_dynamic", [], "app", 5],
    ["tests.unit.pass_by_ref_test", "sub_mixed", [], "app", 5],
    ["tests.unit.pass_by_ref_test", "lots_o_vars", [], "app", 5],
    ["tests.unit.pass_by_ref_test", "empty_scratches", [], "app", 5],
    ["tests.unit.user_guide_test", "user_guide_snippet_dynamic_scratch_var", [], "app", 5],
    ["tests.unit.user_guide_test", "user_guide_snippet_recursiveIsEven", [], "app", 4],
    ["tests.unit.user_guide_test", "user_guide_snippet_ABIReturnSubroutine", [], "app", 5],
]
NAMEPOOL = ["f", "g", "helper", "calc", "do_it", "check_owner", "x", "sum_", "mul_add", "get", "set_", "payout", "Z", "a_b", "fn", "transfer", "verify", "inner", "step", "q"]
INTPOOL = [0, 1, 2, 3, 7, 10, 100, 255, 256, 1000, 65535, 65536, 2**32, 2**32 + 1, 2**63, 2**64 - 1, 123456789, 42]
BYTEPOOL = ["", "a", "abc", "hello world", "k1", "k2", "\\x00", "x" * 20, "key", "value", "//", "a;b", "A" * 33,
            # the same text in another role elsewhere (method signature, address, template name, hex / base64 text)
            "add(uint64,uint64)uint64", "f()void", "7ZUECA7HFLZTXENRV24SHLU4AVPUTMTTDUFUBNBD64C73F3UHRTHAIOF6Q", "TMPL_A", "0xdeadbeef", "YQ=="]
HEXPOOL = ["0x00", "0x61", "0xdeadbeef", "0x" + "ab" * 32, "0x0001"]
B64POOL = ["YQ==", "aGVsbG8=", "AAAA"]
ADDRPOOL = ["AAAAAAAAAAAAAAAAAAAAAAAAAAAAAAAAAAAAAAAAAAAAAAAAAAAAY5HFKQ", "7ZUECA7HFLZTXENRV24SHLU4AVPUTMTTDUFUBNBD64C73F3UHRTHAIOF6Q"]
MSELPOOL = ["add(uint64,uint64)uint64", "f()void", "transfer(address,uint64)bool"]


def sub_rng(seed: int, label: str) -> random.Random:
    return random.Random(f"{seed}/{label}")


class Scope:
    def __init__(self, mode: str, in_sub=None, params=None, output=None):
        self.mode = mode
        self.in_sub = in_sub
        self.vars: list[str] = []  # 'u' | 'b'
        self.abis: list[str] = []
        self.dyns: list[str] = []
        self.params = params or []  # list of param kinds
        self.output = output
        self.loop = 0
        self.for_vars: list[int] = []
        self.output_set = False

    def vars_of(self, t):
        return [i for i, x in enumerate(self.vars) if x == t and i not in self.for_vars]

    def abis_of(self, ts):
        return [i for i, x in enumerate(self.abis) if x in ts]


class RecipeGen:
    def __init__(self, rng: random.Random, features: dict):
        self.r = rng
        self.f = features
        self.subs: list[dict] = []
        allt = ["TMPL_A", "TMPL_AB", "TMPL_B", "TMPL_X", "TMPL_FEE", "TMPL_AMT", "TMPL_OWNER", "TMPL_RCV", "TMPL_Q1", "TMPL_Z"]
        self.tmpl_int = rng.sample(allt, rng.randrange(1, 4))
        self.tmpl_bytes = rng.sample(allt, rng.randrange(1, 4))
        self.cur_sub_index = None
        self.minv = 2
        self.used_slots: list[int] = []
        # user-defined abi.NamedTuple classes of this program (created per program by the builder)
        self.ntypes: dict = {}
        if features.get("named_tuples"):
            for nm in rng.sample(sorted(NT_MENU), rng.randrange(1, 3)):
                self.ntypes[nm] = NT_MENU[nm]
        self.ELEMS = dict(ELEMS)
        self.ELEMS.update(self.ntypes)
        self.COMPOSITE = COMPOSITE_ABI + sorted(self.ntypes)
        self.TUPLES = ["(uint64,uint8)", "(bool,uint64,bool)"] + sorted(self.ntypes)
        self.VALUE = UINT_ABI + BYTES_ABI + self.COMPOSITE
        # module-level ScratchVars of the program, visible to the main routine and every subroutine
        self.gvars: list = []
        if features.get("globals"):
            for _ in range(rng.randrange(1, 4)):
                t = rng.choice(["u", "u", "b"])
                sid = None
                if rng.random() < 0.4:
                    cand = [i for i in (0, 1, 5, 9, 10, 50, 128, 200, 255) if i not in self.used_slots]
                    sid = rng.choice(cand)
                    self.used_slots.append(sid)
                self.gvars.append([t, sid])
        # a small per-program pool, so that constants repeat (frequency ties in constant blocks)
        self.int_pool = [rng.choice(INTPOOL) for _ in range(rng.randrange(2, 7))]
        self.byte_pool = [rng.choice(BYTEPOOL) for _ in range(rng.randrange(2, 6))]

    # ---------------------------------------------------------------- helpers
    def need(self, v):
        if v > self.minv:
            self.minv = v

    def chance(self, p):
        return self.r.random() < p

    def callable_subs(self, sc: Scope, pred):
        """indices of subs callable from this scope (DAG unless recursion feature)"""
        out = []
        for j, s in enumerate(self.subs):
            if s.get("handler_only") or s.get("late"):
                # late-defined method subroutines may not exist yet when a caller is evaluated
                continue
            if sc.in_sub is None:
                ok = True
            else:
                i = self.cur_sub_index
                if j < i:
                    ok = True
                elif j == i:
                    ok = bool(s.get("recursive"))
                elif j == i + 1:
                    ok = bool(s.get("mutual_prev"))
                else:
                    ok = False
                if s.get("group") and self.subs[i].get("group"):
                    ok = True
            if ok and pred(s) and self.args_available(sc, s):
                out.append(j)
        return out

    def args_available(self, sc: Scope, s) -> bool:
        for pk in s["params"]:
            if pk[0] == "ref" and not sc.vars_of("u") and not sc.vars_of("b"):
                return False
            if pk[0] == "abi" and not self.abi_arg_choices(sc, pk[1]):
                return False
        return True

    def abi_arg_choices(self, sc: Scope, t):
        ch = [["abiref", i] for i in sc.abis_of([t])]
        for i, pk in enumerate(sc.params):
            if pk[0] == "abi" and pk[1] == t:
                ch.append(["pabiref", i])
        return ch

    def call_args(self, sc: Scope, s, d):
        args = []
        for pk in s["params"]:
            if pk[0] == "expr":
                args.append(self.expr(sc, pk[1], d + 1))
            elif pk[0] == "ref":
                cands = sc.vars_of("u") + sc.vars_of("b")
                args.append(["varref", self.r.choice(cands)])
            else:
                args.append(self.r.choice(self.abi_arg_choices(sc, pk[1])))
        return args

    # ---------------------------------------------------------------- expressions
    def expr(self, sc: Scope, t: str, d: int = 0):
        r = self.r
        leaf = d >= self.f["max_depth"] or r.random() < 0.35
        if t == "u":
            opts = [("int", 4), ("txn", 2), ("global", 1)]
            if sc.vars_of("u"):
                opts.append(("load", 5))
            if [i for i, g in enumerate(self.gvars) if g[0] == "u"]:
                opts.append(("gvload", 3))
            if sc.abis_of(UINT_ABI):
                opts.append(("aget", 4))
            for i, pk in enumerate(sc.params):
                if pk[0] == "expr" and pk[1] == "u":
                    opts.append((("param", i), 3))
                elif pk[0] == "ref":
                    opts.append((("pload", i), 2))
                elif pk[0] == "abi" and pk[1] in UINT_ABI:
                    opts.append((("paget", i), 3))
            if sc.output in UINT_ABI and sc.output_set and r.random() < 0.3:
                opts.append(("oget", 1))
            if self.f["tmpl"]:
                opts.append(("tmpl", 4))
            if self.f["zoo"]:
                opts.append(("zoo", 3 if leaf else 6))
            if sc.abis_of(["uint64[]", "uint16[3]"]):
                opts.append(("arrlen", 1))
            if not leaf:
                opts += [("bin", 6), ("len", 1), ("btoi", 1), ("not", 1), ("ife", 1)]
                cs = self.callable_subs(sc, lambda s: s["deco"] == "sub" and s["ret"] == "u")
                if cs:
                    opts.append((("call", cs), 6))
                if sc.mode == "app" and self.f["multivalue"]:
                    opts += [("gex", 1), ("bal", 1), ("gget", 1)]
                if self.f["wide"]:
                    opts.append(("wide", 1))
            k = self.pick(opts)
            if k == "zoo":
                return self.zoo_expr(sc, "u", d, leaf)
            if k == "int":
                if self.f["consts"] and r.random() < 0.15:
                    return ["enum", r.choice(["pay", "axfer", "noop", "optin"])]
                if self.f["consts"]:
                    return ["int", r.choice(self.int_pool)]
                return ["int", r.choice([0, 1, 2, 7, 255, 256, 65536, 2**32, 2**64 - 1, r.randrange(1000)])]
            if k == "txn":
                return ["txn", r.choice(["fee", "fv", "amount"] + (["appid", "oc"] if sc.mode == "app" else []))]
            if k == "global":
                return ["global", r.choice(["round", "ts", "gsize"])]
            if k == "load":
                return ["load", r.choice(sc.vars_of("u"))]
            if k == "gvload":
                return ["gvload", r.choice([i for i, g in enumerate(self.gvars) if g[0] == "u"])]
            if k == "aget":
                self.need(5)
                return ["aget", r.choice(sc.abis_of(UINT_ABI))]
            if k == "oget":
                return ["oget"]
            if k == "tmpl":
                return ["tmpl", "int", r.choice(self.tmpl_int)]
            if k == "arrlen":
                self.need(5)
                return ["arrlen", r.choice(sc.abis_of(["uint64[]", "uint16[3]"]))]
            if k == "bin":
                op = r.choice(["add", "sub", "mul", "lt", "gt", "eq", "neq", "and", "or", "mod", "bitand"])
                if op in ("eq", "neq") and r.random() < 0.3:
                    return ["bin", op, self.expr(sc, "b", d + 1), self.expr(sc, "b", d + 1)]
                return ["bin", op, self.expr(sc, "u", d + 1), self.expr(sc, "u", d + 1)]
            if k == "len":
                return ["len", self.expr(sc, "b", d + 1)]
            if k == "btoi":
                return ["btoi", self.expr(sc, "b", d + 1)]
            if k == "not":
                return ["not", self.expr(sc, "u", d + 1)]
            if k == "ife":
                return ["ife", self.expr(sc, "u", d + 1), self.expr(sc, "u", d + 1), self.expr(sc, "u", d + 1)]
            if k == "gex":
                return ["gex", r.choice(["k1", "k2"]), r.randrange(5)]
            if k == "gget":
                return ["gget", r.choice(["k1", "k2"])]
            if k == "bal":
                self.need(2)
                return ["bal", r.randrange(3)]
            if k == "wide":
                return ["wide", [self.expr(sc, "u", d + 2), self.expr(sc, "u", d + 2)], [self.expr(sc, "u", d + 2)]]
            if isinstance(k, tuple):
                if k[0] == "call":
                    j = r.choice(k[1])
                    self.need(4)
                    return ["call", j, self.call_args(sc, self.subs[j], d)]
                return [k[0], k[1]]
        else:  # bytes
            opts = [("bytes", 4), ("txn", 2)]
            if sc.vars_of("b"):
                opts.append(("load", 5))
            if [i for i, g in enumerate(self.gvars) if g[0] == "b"]:
                opts.append(("gvload", 3))
            if sc.abis_of(BYTES_ABI):
                opts.append(("aget", 3))
            if sc.abis:
                opts.append(("encode", 1))
            for i, pk in enumerate(sc.params):
                if pk[0] == "expr" and pk[1] == "b":
                    opts.append((("param", i), 3))
                elif pk[0] == "abi" and pk[1] in BYTES_ABI:
                    opts.append((("paget", i), 3))
            if sc.output in BYTES_ABI and sc.output_set and r.random() < 0.3:
                opts.append(("oget", 1))
            if self.f["tmpl"]:
                opts.append(("tmpl", 4))
            if self.f["zoo"]:
                opts.append(("zoo", 3 if leaf else 6))
            opts.append(("argb", 1))
            if not leaf:
                opts += [("concat", 4), ("itob", 2), ("sha", 1), ("substr", 2)]
                cs = self.callable_subs(sc, lambda s: s["deco"] == "sub" and s["ret"] == "b")
                if cs:
                    opts.append((("call", cs), 6))
            k = self.pick(opts)
            if k == "zoo":
                return self.zoo_expr(sc, "b", d, leaf)
            if k == "bytes":
                if self.f["consts"]:
                    x = r.random()
                    if x < 0.2:
                        return ["hex", r.choice(HEXPOOL)]
                    if x < 0.3:
                        return ["b64", r.choice(B64POOL)]
                    if x < 0.4:
                        return ["addr", r.choice(ADDRPOOL)]
                    if x < 0.5:
                        return ["msel", r.choice(MSELPOOL)]
                    return ["bytes", r.choice(self.byte_pool)]
                return ["bytes", r.choice(["", "a", "abc", "hello world", "k1", "\\x00", "x" * 20])]
            if k == "txn":
                return ["txn", r.choice(["sender", "note"])]
            if k == "load":
                return ["load", r.choice(sc.vars_of("b"))]
            if k == "gvload":
                return ["gvload", r.choice([i for i, g in enumerate(self.gvars) if g[0] == "b"])]
            if k == "aget":
                self.need(5)
                return ["aget", r.choice(sc.abis_of(BYTES_ABI))]
            if k == "encode":
                self.need(5)
                return ["encode", r.randrange(len(sc.abis))]
            if k == "oget":
                return ["oget"]
            if k == "tmpl":
                return ["tmpl", r.choice(["bytes", "bytes", "addr"]), r.choice(self.tmpl_bytes)]
            if k == "argb":
                if sc.mode == "app":
                    return ["apparg", r.randrange(3)]
                return ["arg", r.randrange(3)]
            if k == "concat":
                return ["concat", self.expr(sc, "b", d + 1), self.expr(sc, "b", d + 1)]
            if k == "itob":
                return ["itob", self.expr(sc, "u", d + 1)]
            if k == "substr":
                kind = r.choice(["substring", "substring", "extract", "suffix"])
                if kind == "extract":
                    self.need(5)
                a = r.choice([0, 1, 2, 6])
                b = a + r.choice([0, 1, 5, 300])
                if r.random() < 0.7:
                    return ["substr", kind, self.expr(sc, "b", d + 1), ["int", a], ["int", b]]
                return ["substr", kind, self.expr(sc, "b", d + 1), self.expr(sc, "u", d + 1), ["int", b]]
            if k == "sha":
                return ["sha", self.expr(sc, "b", d + 1)]
            if isinstance(k, tuple):
                if k[0] == "call":
                    j = r.choice(k[1])
                    self.need(4)
                    return ["call", j, self.call_args(sc, self.subs[j], d)]
                return [k[0], k[1]]
        raise AssertionError(k)

    def zoo_expr(self, sc: Scope, t: str, d: int, leaf: bool):
        """one of PyTeal's simple constructors / accessors (sim/zoo.py) producing type t"""
        r = self.r
        mode_ok = lambda m: m == "any" or sc.mode == "app"  # noqa: E731
        cands = [("fn", e) for e in ZOO_FN if e[2] == t and mode_ok(e[4]) and (not leaf or e[1] == "")]
        cands += [("acc", e) for e in ZOO_ACC if e[3] == t and mode_ok(e[5]) and (not leaf or e[2] == "")]
        if not cands:
            return ["int", 1] if t == "u" else ["bytes", "z"]
        kind, e = r.choice(cands)
        pat = e[1] if kind == "fn" else e[2]
        self.need(e[3] if kind == "fn" else e[4])
        args = [self.expr(sc, c, d + 2) for c in pat]
        if kind == "fn":
            return ["zoo", "fn", e[0], args]
        return ["zoo", e[6], e[0], e[1], args]

    def pick(self, opts):
        tot = sum(w for _, w in opts)
        x = self.r.random() * tot
        for k, w in opts:
            x -= w
            if x < 0:
                return k
        return opts[-1][0]

    # ---------------------------------------------------------------- abi values
    def abi_value(self, sc: Scope, t: str):
        """value descriptor for builder._abiset, or None when impossible in this scope"""
        r = self.r
        if t in UINT_ABI:
            if r.random() < 0.4:
                return ["lit", r.choice([0, 1, MAXU[t]]) if t != "bool" else r.choice([True, False])]
            if r.random() < 0.2 and sc.abis_of([t]):
                return ["copy", r.choice(sc.abis_of([t]))]
            return ["e", self.expr(sc, "u", 1)]
        if t == "string":
            if r.random() < 0.3:
                return ["lit", r.choice(["", "hi", "pyteal"])]
            return ["e", self.expr(sc, "b", 1)]
        if t == "address":
            return ["e", ["txn", "sender"]]
        if t in self.COMPOSITE:
            idxs = []
            for et in self.ELEMS[t]:
                c = sc.abis_of([et])
                if not c:
                    return None
                idxs.append(r.choice(c))
            if t == "uint64[]":
                # distinct element objects only: PyTeal rejects one value object used at two
                # places of an array literal with a bare AssertionError (C20's business)
                c = sc.abis_of(["uint64"])
                idxs = r.sample(c, min(len(c), r.randrange(1, 4)))
            elif t == "uint16[3]" and len(set(idxs)) < 3:
                c = sc.abis_of(["uint16"])
                if len(c) < 3:
                    return None
                idxs = r.sample(c, 3)
            elif len(set(idxs)) < len(idxs):
                # tuples: the same value object for two fields is rejected the same way
                used: list = []
                for et in self.ELEMS[t]:
                    c = [i for i in sc.abis_of([et]) if i not in used]
                    if not c:
                        return None
                    used.append(r.choice(c))
                idxs = used
            return ["elems", idxs]
        return None

    # ---------------------------------------------------------------- statements
    def top_stmt(self, sc: Scope):
        """a statement allowed to register variables (top level of a routine only)"""
        r = self.r
        x = r.random()
        if x < 0.22:
            t = r.choice(["u", "u", "b"])
            s = ["newvar", t, self.expr(sc, t, 1)]
            if self.f["reserved_slots"] and r.random() < 0.3:
                cand = [i for i in (0, 1, 2, 3, 10, 100, 200, 254, 255) if i not in self.used_slots]
                if cand:
                    sid = r.choice(cand)
                    self.used_slots.append(sid)
                    s.append(sid)
            sc.vars.append(t)
            return s
        if x < 0.40 and self.f["abi"]:
            t = r.choice(self.VALUE if sc.abis else UINT_ABI + BYTES_ABI)
            v = self.abi_value(sc, t)
            if v is not None:
                self.need(5)
                sc.abis.append(t)
                return ["newabi", t, v]
        if x > 1.0 - self.f.get("dup_pub_p", 0.03) and sc.vars:
            # two arms with identical operations, each storing to and at once loading from the same variable
            cands = [i for i in range(len(sc.vars)) if i not in sc.for_vars]
            if cands:
                i = r.choice(cands)
                arm = [["pub", i, self.expr(sc, sc.vars[i], 2)]]
                if r.random() < 0.5:
                    return ["if", self.expr(sc, "u", 2), arm, arm]
                return ["cond", [[self.expr(sc, "u", 2), arm], [self.expr(sc, "u", 2), arm]]]
        if x < 0.44 and self.f["dynvar"] and (sc.vars_of("u") or sc.vars_of("b")) and sc.in_sub is None:
            t = r.choice(["u", "b"])
            c = sc.vars_of(t)
            if c:
                self.need(5)
                sc.dyns.append(t)
                return ["newdyn", t, r.choice(c)]
        return self.stmt(sc, 0)

    def stmt(self, sc: Scope, d: int):
        r = self.r
        opts = [("pop", 3), ("assert", 2)]
        if sc.vars:
            opts.append(("store", 5))
            opts.append(("pub", 9 if self.f.get("pub_boost") else 2))
        if self.gvars:
            opts.append(("gvstore", 3))
            opts.append(("gvpub", 2))
        if sc.abis_of(UINT_ABI + BYTES_ABI + self.COMPOSITE):
            opts.append(("aset", 4))
        if sc.mode == "app":
            opts += [("gput", 2), ("log", 1)]
            if self.f["itxn"]:
                opts.append(("itxn", 1))
        if d < self.f["max_nest"]:
            opts += [("if", 3), ("while", 1)]
            if sc.vars_of("u"):
                opts.append(("for", 1))
            if self.f["cond"]:
                opts.append(("cond", 1))
        if sc.loop > 0:
            opts += [("break", 1), ("continue", 1)]
        cs_none = self.callable_subs(sc, lambda s: (s["deco"] == "sub" and s["ret"] == "n") or (s["deco"] == "abi" and s["ret"] == "void"))
        if cs_none:
            opts.append((("callnone", cs_none), 5))
        cs_abi = [j for j in self.callable_subs(sc, lambda s: s["deco"] == "abi" and s["ret"] != "void") if sc.abis_of([self.subs[j]["ret"]]) or sc.output == self.subs[j]["ret"]]
        if cs_abi:
            opts.append((("abicall", cs_abi), 8))
        for i, pk in enumerate(sc.params):
            if pk[0] == "ref":
                opts.append((("pstore", i), 3))
        if sc.output is not None:
            opts.append(("oset", 4))
        if sc.abis_of(self.TUPLES):
            opts.append(("tupget", 2))
        if sc.abis_of(["uint64[]", "uint16[3]"]):
            opts.append(("arrget", 2))
        if sc.dyns:
            opts.append(("dyn", 2))
        if self.f["comment"]:
            opts.append(("comment", 1))
        if sc.mode == "app" and self.f["helpers"]:
            hw = 6 if self.f.get("helper_boost") else 1
            opts += [("opup", hw), ("mcall", hw)]
            if self.f.get("helper_boost") and self.f["itxn"]:
                opts.append(("itxn", 3))
        if self.f["helpers"]:
            opts.append(("pragma", 1))
        k = self.pick(opts)
        if k == "opup":
            self.need(6)
            return ["opup", r.choice(["oncall", "explicit"]), r.choice([700, 1000, 2000]), r.choice(["credit", "app", "any"])]
        if k == "mcall":
            self.need(6)
            u64 = sc.abis_of(["uint64"])
            extra = r.sample(["fee", "note", "oc", "rekey", "accounts"], r.choice([0, 0, 1, 2, 3, 4]))
            if len(u64) >= 2 and r.random() < 0.6:
                return ["mcall", "add(uint64,uint64)uint64", [["abiref", r.choice(u64)], ["abiref", r.choice(u64)]], extra]
            return ["mcall", "f()void", [], extra]
        if k == "pragma":
            return ["pragma", r.choice([">=0.20.0", "<1.0.0", ">=0.26.0"]), self.stmt(sc, d + 1)]
        if k == "pop":
            return ["pop", self.expr(sc, r.choice(["u", "b"]), d)]
        if k == "assert":
            if r.random() < 0.3:
                return ["assert", self.expr(sc, "u", d), r.choice(["check", "must hold", "a // b"])]
            return ["assert", self.expr(sc, "u", d)]
        if k == "store":
            cands = [i for i in range(len(sc.vars)) if i not in sc.for_vars]
            if not cands:
                return ["pop", ["int", 1]]
            i = r.choice(cands)
            return ["store", i, self.expr(sc, sc.vars[i], d)]
        if k == "pub":
            # store immediately followed by a load of the same variable (optimiser's pattern)
            cands = [i for i in range(len(sc.vars)) if i not in sc.for_vars]
            if not cands:
                return ["pop", ["int", 1]]
            i = r.choice(cands)
            return ["pub", i, self.expr(sc, sc.vars[i], d)]
        if k in ("gvstore", "gvpub"):
            i = r.randrange(len(self.gvars))
            return [k, i, self.expr(sc, self.gvars[i][0], d)]
        if k == "aset":
            i = r.choice(sc.abis_of(UINT_ABI + BYTES_ABI + self.COMPOSITE))
            v = self.abi_value(sc, sc.abis[i])
            if v is None or (v[0] == "copy" and v[1] == i):
                return ["pop", ["int", 2]]
            self.need(5)
            return ["aset", i, sc.abis[i], v]
        if k == "gput":
            return ["gput", r.choice(["k1", "k2", "k3"]), self.expr(sc, r.choice(["u", "b"]), d)]
        if k == "log":
            self.need(5)
            return ["log", self.expr(sc, "b", d)]
        if k == "itxn":
            self.need(5)
            if r.random() < 0.4:
                self.need(6)
                return ["itxn_arr", r.choice(["accounts", "apps", "args", "assets"]), self.expr(sc, "u", d + 1)]
            return ["itxn", self.expr(sc, "u", d + 1)]
        if k == "if":
            then = self.block(sc, d + 1)
            x = r.random()
            els = self.block(sc, d + 1) if x < 0.4 else (then if x < 0.55 else None)  # else == then: equal ops, distinct blocks
            return ["if", self.expr(sc, "u", d + 1), then, els]
        if k == "cond":
            n = r.randrange(1, 4)
            arms = [[self.expr(sc, "u", d + 1), self.block(sc, d + 1)] for _ in range(n)]
            if r.random() < 0.3:
                arms.append([self.expr(sc, "u", d + 1), arms[0][1]])
            return ["cond", arms]
        if k == "while":
            sc.loop += 1
            b = self.block(sc, d + 1)
            sc.loop -= 1
            return ["while", self.expr(sc, "u", d + 1), b]
        if k == "for":
            c = sc.vars_of("u")
            if not c:
                return ["pop", ["int", 3]]
            i = r.choice(c)
            sc.for_vars.append(i)
            sc.loop += 1
            b = self.block(sc, d + 1)
            sc.loop -= 1
            sc.for_vars.remove(i)
            return ["for", i, r.randrange(1, 5), b]
        if k == "break":
            return ["break"]
        if k == "continue":
            return ["continue"]
        if k == "oset":
            v = self.abi_value(sc, sc.output)
            if v is None:
                return ["pop", ["int", 4]]
            if d == 0:
                sc.output_set = True
            return ["oset", sc.output, v]
        if k == "tupget":
            i = r.choice(sc.abis_of(self.TUPLES))
            es = self.ELEMS[sc.abis[i]]
            j = r.randrange(len(es))
            dest = sc.abis_of([es[j]])
            if not dest:
                return ["pop", ["int", 5]]
            return ["tupget", i, j, r.choice(dest)]
        if k == "arrget":
            i = r.choice(sc.abis_of(["uint64[]", "uint16[3]"]))
            et = self.ELEMS[sc.abis[i]][0]
            dest = sc.abis_of([et])
            if not dest:
                return ["pop", ["int", 6]]
            return ["arrget", i, self.expr(sc, "u", d + 1), r.choice(dest)]
        if k == "dyn":
            j = r.randrange(len(sc.dyns))
            t = sc.dyns[j]
            if r.random() < 0.4 and sc.vars_of(t):
                return ["dynset", j, r.choice(sc.vars_of(t))]
            return ["dstore", j, self.expr(sc, t, d)]
        if k == "comment":
            return ["comment", r.choice(["note", "step // x", "multi\nline"]), self.stmt(sc, d + 1)]
        if isinstance(k, tuple):
            if k[0] == "callnone":
                j = r.choice(k[1])
                self.need(4)
                return ["callnone", j, self.call_args(sc, self.subs[j], d)]
            if k[0] == "abicall":
                j = r.choice(k[1])
                s = self.subs[j]
                self.need(5)
                args = self.call_args(sc, s, d)
                dests = sc.abis_of([s["ret"]])
                if sc.output == s["ret"] and (not dests or r.random() < 0.3):
                    return ["oset_call", j, args]
                dest = r.choice(dests)
                form = r.random()
                if form < 0.6:
                    return ["aset_call", dest, j, args]
                if form < 0.85:
                    return ["store_into_call", dest, j, args]
                sc.abis.append(s["ret"])
                inner = [self.stmt(sc, self.f["max_nest"])]
                sc.abis.pop()
                return ["use_call", j, args, inner]
            if k[0] == "pstore":
                return ["pstore", k[1], self.expr(sc, "u", d)]
        raise AssertionError(k)

    def block(self, sc: Scope, d: int):
        return [self.stmt(sc, d) for _ in range(self.r.randrange(1, 3))]

    # ---------------------------------------------------------------- subroutines
    def gen_sub_signatures(self, n: int, router_methods: int = 0, bare_handlers=()):
        r = self.r
        sigs = []
        for k in range(n):
            is_method = k >= n - router_methods
            if is_method:
                deco = "abi"
                nparams = r.choice([0, 1, 1, 2, 2, 3, 4]) if not (self.f["many_args"] and r.random() < 0.3) else r.choice([15, 16, 17])
                params = []
                for _ in range(nparams):
                    if self.f["ref_txn_args"] and r.random() < 0.15:
                        params.append(["abi", r.choice(REF_TXN_ABI)])
                    else:
                        params.append(["abi", r.choice(self.VALUE)])
                # ARC-4: transaction args must... (any position is allowed by PyTeal)
                ret = r.choice(["void", "uint64", "string", "bool", "(uint64,uint8)", "uint64[]", "uint8"])
                if nparams >= 15 and r.random() < 0.5:
                    ret = "void"
            else:
                deco = r.choice(["sub", "sub", "abi"]) if self.f["abi"] else "sub"
                nparams = r.choice([0, 1, 1, 2, 2, 3])
                params = []
                for _ in range(nparams):
                    x = r.random()
                    if deco == "abi" and x < 0.6 or (self.f["abi"] and x < 0.2):
                        params.append(["abi", r.choice(self.VALUE)])
                    elif x < 0.75 or not self.f["byref"]:
                        params.append(["expr", r.choice(["u", "u", "b"])])
                    else:
                        params.append(["ref"])
                        self.need(5)
                if deco == "sub":
                    ret = r.choice(["u", "u", "b", "n"])
                else:
                    ret = r.choice(["void", "uint64", "uint64", "string", "bool", "(uint64,uint8)", "uint8"])
            nm = (r.choice(NAMEPOOL) + str(k)) if self.f["names"] else f"f{k}"
            s = {"name": nm, "deco": deco, "ret": ret, "params": params, "body": [], "retexpr": None}
            if not is_method and self.f["names"] and r.random() < 0.25:
                # an explicit subroutine name: names that sanitise to the same label, very long
                # names, names shared by two subroutines, non-identifier characters
                s["label"] = r.choice(["a b", "a-b", "a_b", "helper", "helper", "x" * 80, "sub/1", "caf\u00e9", "f", "main", "__sub__", "0start"])
            if not is_method and self.f["shared_fns"] and r.random() < 0.3:
                # this program decorates a plain function of a shared helper module for itself
                fn = r.choice(["one", "inc", "tmp", "add"])
                s.update({"deco": "sub", "ret": "u", "params": [["expr", "u"]] * {"one": 0, "inc": 1, "tmp": 1, "add": 2}[fn], "shared_fn": fn})
            if not is_method and self.f["recursion"] and not any(p[0] == "ref" for p in params) and r.random() < 0.3:
                if deco == "sub" or self.f["abi_recursion"]:
                    s["recursive"] = True
            sigs.append(s)
        for k in range(1, n):
            a, b = sigs[k - 1], sigs[k]
            if (
                self.f["recursion"]
                and r.random() < 0.15
                and a["deco"] == "sub"
                and b["deco"] == "sub"
                and not any(p[0] == "ref" for p in a["params"] + b["params"])
            ):
                b["mutual_prev"] = True  # sub k-1 may call sub k (and k may call k-1 as usual)
        # a group of plain subroutines that may call each other in any direction (cyclic call
        # graphs richer than self/mutual recursion: cycles with chords, helpers calling back)
        self.group_edges = []
        if self.f["recursion"] and r.random() < 0.35:
            cand = [
                k
                for k in range(n)
                if k < n - router_methods
                and (sigs[k]["deco"] == "sub" or (self.f["abi_recursion"] and sigs[k]["deco"] == "abi"))
                and not any(p[0] == "ref" for p in sigs[k]["params"])
            ]
            if len(cand) >= 2:
                g = sorted(r.sample(cand, r.randrange(2, min(4, len(cand)) + 1)))
                with_abi = any(sigs[k]["deco"] == "abi" for k in g)
                if with_abi:
                    # PyTeal evaluates cycles of ABI subroutines until RecursionError (swallowed in
                    # store_into); more than a plain two-cycle can take minutes
                    g = g[:2]
                for k in g:
                    sigs[k]["group"] = 1
                for i, k in enumerate(g):
                    self.group_edges.append((k, g[(i + 1) % len(g)]))  # ring
                for _ in range(0 if with_abi else r.randrange(0, 3)):
                    a, b2 = r.choice(g), r.choice(g)
                    if (a, b2) not in self.group_edges:
                        self.group_edges.append((a, b2))  # chord / back edge / self loop
        return sigs

    def gen_sub_body(self, k: int, mode: str, forced=()):
        r = self.r
        s = self.subs[k]
        self.cur_sub_index = k
        out_t = s["ret"] if s["deco"] == "abi" and s["ret"] != "void" else None
        sc = Scope(mode, in_sub=s["name"], params=s["params"], output=out_t)
        body = []
        for j in list(forced) + [b for a, b in getattr(self, "group_edges", []) if a == k]:
            self.force_call(sc, j, body, False)
        if self.ntypes and r.random() < 0.4:
            # a user-defined NamedTuple value made inside the body (its class need not occur in any signature)
            self._make_abi(sc, r.choice(sorted(self.ntypes)), body, False)
        n = r.randrange(1, self.f["max_body"] + 1)
        fault = s.get("fault")
        fpos = r.randrange(0, n + 1) if fault else None
        for i in range(n):
            if fault and i == fpos:
                body.append(self._fault_stmt(fault))
            body.append(self.top_stmt(sc))
        if fault and fpos == n:
            body.append(self._fault_stmt(fault))
        if out_t is not None:
            v = self.abi_value(sc, out_t)
            if v is None:
                # make the elements first (one distinct value object per field)
                for et in self.ELEMS[out_t]:
                    while len(sc.abis_of([et])) < self.ELEMS[out_t].count(et):
                        body.append(["newabi", et, self.abi_value(sc, et)])
                        sc.abis.append(et)
                v = self.abi_value(sc, out_t)
            body.append(["oset", out_t, v])
        if s["deco"] == "abi" and (s.get("recursive") or s.get("group")):
            # PyTeal re-evaluates an ABI callee that is still being evaluated at every call site
            # (store_into), until RecursionError: more than one re-entrant call per body is
            # exponential in the recursion depth.  Keep the first, neutralise the others.
            members = {j for j, x in enumerate(self.subs) if x.get("group") and x["deco"] == "abi"} | ({k} if s.get("recursive") else set())
            self._limit_reentrant_calls(body, members, [1])
        s["body"] = body
        if s["deco"] == "sub" and s["ret"] in ("u", "b"):
            s["retexpr"] = self.expr(sc, s["ret"], 1)
        if fault and fault["kind"] == "nonexpr":
            s["nonexpr"] = True
        self.cur_sub_index = None

    def _limit_reentrant_calls(self, node, members: set, budget: list):
        """in place: ABI calls to `members` beyond budget[0] become a harmless statement"""
        if not isinstance(node, list):
            return
        for i, x in enumerate(node):
            if isinstance(x, list) and x:
                callee = None
                if x[0] in ("aset_call", "store_into_call") and len(x) > 2 and isinstance(x[2], int):
                    callee = x[2]
                elif x[0] in ("use_call", "oset_call") and len(x) > 1 and isinstance(x[1], int):
                    callee = x[1]
                elif x[0] in ("callnone", "call") and len(x) > 1 and isinstance(x[1], int) and self.subs[x[1]]["deco"] == "abi":
                    callee = x[1]
                if callee is not None and callee in members:
                    if budget[0] > 0:
                        budget[0] -= 1
                    else:
                        node[i] = ["pop", ["int", 1]]
                        continue
                self._limit_reentrant_calls(x, members, budget)

    def _fault_stmt(self, fault):
        if fault["kind"] == "raise":
            return ["raise"]
        if fault["kind"] == "transient":
            return ["maybe_raise", fault["on"]]
        if fault["kind"] == "badtype":
            return ["pop", ["badtype"]]
        if fault["kind"] == "stray":
            # Break()/Continue() outside any loop: rejected by the compiler in a fresh process
            return [fault["which"]]
        if fault["kind"] == "badabi":
            return ["pop", ["badabi", fault["which"]]]
        if fault["kind"] == "needv":
            return ["pop", ["needv", fault["v"]]]
        if fault["kind"] == "nonexpr":
            return ["pop", ["int", 9]]
        raise KeyError(fault)

    # ---------------------------------------------------------------- programs
    def ensure_arg_vars(self, sc: Scope, s, steps_or_body: list, as_steps: bool):
        """create variables needed to call sub s from scope sc (top level)"""
        for pk in s["params"]:
            if pk[0] == "ref" and not sc.vars:
                st = ["newvar", "u", ["int", 1]]
                sc.vars.append("u")
                steps_or_body.append(["stmt", st] if as_steps else st)
            if pk[0] == "abi" and not self.abi_arg_choices(sc, pk[1]):
                self._make_abi(sc, pk[1], steps_or_body, as_steps)
        if s["deco"] == "abi" and s["ret"] != "void" and not sc.abis_of([s["ret"]]):
            self._make_abi(sc, s["ret"], steps_or_body, as_steps)

    def _make_abi(self, sc, t, out, as_steps):
        if t in self.COMPOSITE:
            for et in self.ELEMS[t]:
                while len(sc.abis_of([et])) < self.ELEMS[t].count(et):
                    self._make_abi(sc, et, out, as_steps)
        v = self.abi_value(sc, t)
        st = ["newabi", t, v]
        sc.abis.append(t)
        self.need(5)
        out.append(["stmt", st] if as_steps else st)

    def force_call(self, sc: Scope, j: int, out: list, as_steps: bool):
        s = self.subs[j]
        self.ensure_arg_vars(sc, s, out, as_steps)
        args = self.call_args(sc, s, 1)
        self.need(4)
        if s["deco"] == "sub" and s["ret"] in ("u", "b"):
            st = ["pop", ["call", j, args]]
        elif s["deco"] == "abi" and s["ret"] != "void":
            self.need(5)
            st = [self.r.choice(["aset_call", "aset_call", "store_into_call"]), self.r.choice(sc.abis_of([s["ret"]])), j, args]
        else:
            st = ["callnone", j, args]
        out.append(["stmt", st] if as_steps else st)

    def gen_expr_program(self, pid: str, target: bool, fault_sub=None, prog_fault=None):
        r = self.r
        mode = r.choice(["app", "app", "sig"]) if not self.f["abi"] else r.choice(["app", "app", "app", "sig"])
        nsubs = r.choice(self.f["nsubs"])
        self.subs = self.gen_sub_signatures(nsubs)
        if fault_sub is not None and self.subs:
            self.subs[r.randrange(len(self.subs))]["fault"] = fault_sub
        # bodies: generate in index order so that DAG calls refer to known signatures
        # every sub gets one guaranteed caller: a later sub or the main routine
        forced: list[list[int]] = [[] for _ in range(nsubs + 1)]
        for j in range(nsubs):
            caller = r.randrange(j + 1, nsubs + 1) if r.random() < 0.5 else nsubs
            forced[caller].append(j)
        for k in range(nsubs):
            self.gen_sub_body(k, mode, forced[k])
        sc = Scope(mode)
        steps = [["defsub", k] for k in range(nsubs)] + self.global_steps()
        n = r.randrange(1, self.f["max_main"] + 1)
        pre = r.randrange(0, n + 1)
        for i in range(n):
            if i == pre:
                for j in forced[nsubs]:
                    self.force_call(sc, j, steps, True)
            st = self.top_stmt(sc)
            steps.append(["stmt", st])
        if pre == n:
            for j in forced[nsubs]:
                self.force_call(sc, j, steps, True)
        if prog_fault is not None:
            steps.append(["stmt", prog_fault])
        steps.append(["final", self.expr(sc, "u", 1)])
        if nsubs:
            self.need(4)
        spec = {"id": pid, "kind": "expr", "mode": mode, "target": target, "subs": self.subs, "steps": steps, "minv": self.minv, "ntypes": self.ntypes, "globals": self.gvars}
        if self.f.get("nonce") and r.random() < 0.5:
            spec["nonce"] = r.choice([["base64", "YQ=="], ["base16", "0xdeadbeef"], ["base32", "MFRGGZDF"]])
        return spec

    def global_steps(self):
        if not self.gvars:
            return []
        out = [["defglobals"]]
        for i, g in enumerate(self.gvars):
            out.append(["stmt", ["gvstore", i, ["int", i] if g[0] == "u" else ["bytes", "g"]]])
        return out

    def _collect_calls(self, node, acc: set):
        if isinstance(node, list):
            if node and node[0] in ("call", "callnone", "use_call", "oset_call") and isinstance(node[1], int):
                acc.add(node[1])
            if node and node[0] in ("aset_call", "store_into_call") and len(node) > 2 and isinstance(node[2], int):
                acc.add(node[2])
            for x in node:
                self._collect_calls(x, acc)

    def _reachable(self, roots: set) -> set:
        seen = set()
        todo = sorted(roots)
        while todo:
            j = todo.pop()
            if j in seen:
                continue
            seen.add(j)
            acc: set = set()
            self._collect_calls(self.subs[j]["body"], acc)
            self._collect_calls(self.subs[j].get("retexpr"), acc)
            todo += sorted(acc)
        return seen

    def gen_router_program(self, pid: str, target: bool, fault_sub=None):
        r = self.r
        mode = "app"
        self.need(6)
        self.gvars = []
        fault_on_handler = fault_sub is not None and r.random() < 0.4
        nhelp = r.choice([0, 1, 1, 2])
        nmeth = r.choice([1, 1, 2, 2, 3, 4])
        nbare = r.choice([0, 1, 1, 2])
        self.subs = self.gen_sub_signatures(nhelp + nmeth, router_methods=nmeth)
        if fault_sub is not None and not fault_on_handler:
            self.subs[r.randrange(len(self.subs))]["fault"] = fault_sub
        # methods whose subroutine is defined only just before registration: not callable from
        # expressions that are built when the router is created (bare-call / clear-state actions)
        late = [k for k in range(nhelp, nhelp + nmeth) if r.random() < 0.5]
        for k in late:
            self.subs[k]["late"] = True
        # every helper gets one guaranteed caller: a later helper or a method
        forced: list[list[int]] = [[] for _ in range(nhelp + nmeth)]
        for j in range(nhelp):
            forced[r.randrange(j + 1, nhelp + nmeth)].append(j)
        for k in range(nhelp + nmeth):
            self.gen_sub_body(k, mode, forced[k])
        # bare-call handlers
        bare = {}
        ocs = ["no_op", "opt_in", "close_out", "update_application", "delete_application"]
        r.shuffle(ocs)
        handler_subs = []
        for oc in ocs[:nbare]:
            kind = r.choice(["expr", "expr", "sub", "abisub"])
            cc = r.choice(["CALL", "CREATE", "ALL"])
            if kind == "expr":
                sc = Scope(mode)
                bare[oc] = [["expr", [self.stmt(sc, self.f["max_nest"])]], cc]
            else:
                idx = len(self.subs) + len(handler_subs)
                hs = {
                    "name": f"h{idx}",
                    "deco": "sub" if kind == "sub" else "abi",
                    "ret": "n" if kind == "sub" else "void",
                    "params": [],
                    "body": [],
                    "retexpr": None,
                    "handler_only": True,
                }
                if fault_on_handler:
                    hs["fault"] = fault_sub
                    fault_on_handler = False
                handler_subs.append(hs)
                bare[oc] = [[kind, idx], cc]
        clear_kind = "expr" if r.random() < 0.4 else ("sub" if r.random() < 0.25 else None)
        clear = None
        if clear_kind == "sub":
            idx = len(self.subs) + len(handler_subs)
            handler_subs.append({"name": f"clr{idx}", "deco": "sub", "ret": "n", "params": [], "body": [], "retexpr": None, "handler_only": True})
            clear = ["sub", idx]
        base = len(self.subs)
        self.subs = self.subs + handler_subs
        for i in range(len(handler_subs)):
            self.gen_sub_body(base + i, mode)
        if clear_kind == "expr":
            sc = Scope(mode)
            blk: list = []
            # the clear-state program reaches some of the helpers the approval program reaches
            for j in [j for j in range(nhelp) if r.random() < 0.7]:
                self.force_call(sc, j, blk, False)
            blk += [self.stmt(sc, self.f["max_nest"]) for _ in range(r.randrange(1, 3))]
            clear = ["expr", blk]
        # helpers and bare-call handlers exist before the router; a method's subroutine is
        # defined either up front or only just before it is registered (i.e. possibly after an
        # earlier compile of the same router)
        steps = [["defsub", k] for k in range(len(self.subs)) if k not in late]
        steps.append(["router_new", {"name": r.choice([pid, pid, "app", "Contract", "R"]), "bare": bare, "clear": clear}])
        first_compilable = None
        for k in range(nhelp, nhelp + nmeth):
            mc = {"no_op": "CALL"}
            if r.random() < 0.3:
                mc = {r.choice(["no_op", "opt_in", "close_out"]): r.choice(["CALL", "CREATE", "ALL"])}
            if k in late:
                steps.append(["defsub", k])
            cfgm = {"mc": mc}
            if r.random() < 0.15:
                cfgm["name"] = r.choice(["renamed", "do_thing", "m"]) + str(k)
            steps.append(["add_method", k, cfgm])
            if first_compilable is None:
                first_compilable = len(steps)
        spec = {
            "id": pid,
            "kind": "router",
            "mode": mode,
            "target": target,
            "subs": self.subs,
            "steps": steps,
            "minv": max(self.minv, 6),
            "first_compilable": first_compilable,
            "ntypes": self.ntypes,
            "globals": [],
        }
        return spec


# ------------------------------------------------------------------------------------------
# run plan
# ------------------------------------------------------------------------------------------
def gen_features(r: random.Random) -> dict:
    """swarm-style: each run enables a random subset of feature families"""
    f = _gen_features(r)
    if os.environ.get("SIM_FORCE_RECURSION"):
        f.update({"abi": True, "recursion": True, "abi_recursion": True})
    return f


def _gen_features(r: random.Random) -> dict:
    return {
        "abi": r.random() < 0.8,
        "byref": r.random() < 0.5,
        "recursion": r.random() < 0.4,
        "abi_recursion": r.random() < 0.1,
        "tmpl": r.random() < 0.3,
        "multivalue": r.random() < 0.5,
        "wide": r.random() < 0.2,
        "itxn": r.random() < 0.3,
        "cond": r.random() < 0.5,
        "comment": r.random() < 0.3,
        "dynvar": r.random() < 0.4,
        "reserved_slots": r.random() < 0.4,
        "many_args": r.random() < 0.15,
        "ref_txn_args": r.random() < 0.4,
        "helpers": r.random() < 0.3,
        "zoo": r.random() < 0.4,
        "shared_fns": r.random() < 0.2,
        "nonce": r.random() < 0.1,
        "named_tuples": r.random() < 0.35,
        "globals": r.random() < 0.35,
        "consts": r.random() < 0.5,
        "names": r.random() < 0.5,
        "max_depth": r.choice([1, 2, 2, 3]),
        "max_nest": r.choice([0, 1, 1, 2]),
        "max_body": r.choice([2, 3, 4, 6]),
        "max_main": r.choice([2, 4, 6, 9]),
        "nsubs": r.choice([[0, 1], [1, 2], [1, 2, 3], [2, 3, 4, 5]]),
    }


# Specialist profiles (swarm testing with themes): 30 % of the runs push the feature mix and the op
# mix towards one family of hidden-state hazards that needs a rare conjunction of ingredients; the
# other 70 % stay generic.  A profile only changes probabilities - every ingredient also occurs
# in generic runs.
PROFILES = ["router-growth", "low-version", "opt-slots", "identity", "decl-churn", "helper-interleave", "abi-cycles", "templates-consts"]
# ABI constructions rejected while building; "bigtuple" is the one that fails AFTER the encoder allocated
# its helper storage (late failure inside a helper), hence its weight
BADABI = ["bigtuple", "bigtuple", "bigtuple", "uintover", "arrlen", "arity", "elemtype", "dynelem", "addr", "boolarr", "idx", "tupidx"]
KNOBS: dict = {}


def _profile_knobs(profile, feats: dict) -> dict:
    k = {"router_p": 0.4, "noise_p": 0.35, "natural_p": 0.25, "low_versions": False, "ss_on_p": None, "shared_S_p": 0.35, "same_opts_p": 0.3, "decl_churn": False, "uniform": False, "testctx_p": None, "ac_p": 0.25}
    if profile == "router-growth":
        feats.update({"abi": True})
        k.update({"router_p": 0.9, "same_opts_p": 0.55})
    elif profile == "low-version":
        feats.update({"abi": False, "zoo": True, "named_tuples": False, "helpers": False})
        k.update({"low_versions": True, "router_p": 0.0})
    elif profile == "opt-slots":
        feats.update({"globals": True, "reserved_slots": True, "dynvar": True, "multivalue": True, "cond": True, "max_nest": 2, "dup_pub_p": 0.25})
        k.update({"ss_on_p": 0.7, "shared_S_p": 0.8, "testctx_p": 0.7})
    elif profile == "identity":
        feats.update({"pub_boost": True, "multivalue": True, "zoo": True, "max_main": 9})
        k.update({"natural_p": 1.0, "ss_on_p": 0.8, "noise_p": 0.6, "drop_p": 1.0})
    elif profile == "decl-churn":
        feats.update({"abi": True})
        k.update({"decl_churn": True, "low_versions": False})
    elif profile == "helper-interleave":
        feats.update({"helpers": True, "abi": True, "itxn": True, "helper_boost": True})
        k.update({"uniform": True})
    elif profile == "abi-cycles":
        feats.update({"abi": True, "recursion": True, "abi_recursion": True})
    elif profile == "templates-consts":
        feats.update({"tmpl": True, "consts": True})
        k.update({"ac_p": 0.6})
    return k


def gen_opts(r: random.Random, spec: dict, *, native_fail=False, allow_sm=False) -> dict:
    minv = spec.get("minv", 2)
    if native_fail:
        x = r.random()
        if x < 0.3 and minv > 2:
            v = r.randrange(2, minv)
            return {"version": v}
        if x < 0.45:
            return {"version": r.choice([1, 11, 0])}
        if x < 0.7:
            return {"version": r.choice([v for v in (4, 5, 6, 7) if v >= min(minv, 7)] or [7]), "opt": {"fp": True, "ss": None}}
        if x < 0.75:
            return {"version": 2, "ac": True}
        if x < 0.95 and spec["kind"] == "expr":
            # compiled for the other mode: rejected by the final op sweep, after everything else ran
            return {"version": r.choice([v for v in range(max(minv, 2), 11)]), "mode": "sig" if spec.get("mode") == "app" else "app"}
        return {"version": max(2, minv - 1)}
    hi = 10
    v = r.choice([x for x in range(max(minv, 2), hi + 1)])
    if r.random() < 0.5:
        v = r.choice([x for x in (6, 7, 8, 8, 9, 10) if x >= minv] or [10])
    if KNOBS.get("low_versions") and minv <= 6 and r.random() < 0.7:
        v = r.choice([x for x in range(max(minv, 2), 8)])
    if KNOBS.get("decl_churn") and minv <= 7 and r.random() < 0.6:
        v = r.choice([x for x in (5, 6, 7) if x >= minv] or [7])
    o: dict = {"version": v}
    ss_on = KNOBS.get("ss_on_p")
    if r.random() < (0.5 if ss_on is None else 0.85):
        fp = r.choice([None, None, True, False]) if v >= 8 else r.choice([None, False])
        ss = r.choice([None, True, False]) if ss_on is None or r.random() > ss_on else True
        o["opt"] = {"fp": fp, "ss": ss}
        if r.random() < KNOBS.get("shared_S_p", 0.35):
            o["opt"]["shared"] = r.choice([True, True, "S"]) if KNOBS.get("shared_S_p", 0.35) < 0.5 else r.choice([True, "S", "S"])
    if v >= 3 and r.random() < KNOBS.get("ac_p", 0.25):
        o["ac"] = True
    if r.random() < 0.15:
        o["via_compile"] = True
    elif r.random() < 0.15 and spec["kind"] != "router":
        o["reuse_comp"] = r.choice([True, "mutate", "mutate"])
    if allow_sm:
        o["sm"] = {"annotate": r.random() < 0.3, "pcs": r.random() < 0.4, "concise": r.random() < 0.5}
    return o


def gen_plan(seed: int, cfg: dict) -> dict:
    """cfg: {"faults": [kinds enabled], "sourcemaps": bool}"""
    r = sub_rng(seed, "plan")
    rr = sub_rng(seed, "recipes")
    feats = gen_features(rr)
    profile = r.choice(PROFILES) if r.random() < 0.3 and not os.environ.get("SIM_NO_PROFILES") else None
    if os.environ.get("SIM_FORCE_PROFILE"):
        profile = os.environ["SIM_FORCE_PROFILE"]  # experiments only
    KNOBS.clear()
    KNOBS.update(_profile_knobs(profile, feats))
    enabled = [k for k in cfg.get("faults", []) if r.random() < 0.7]
    nsess = r.choice([1, 2, 2, 3, 3, 4])
    if profile in ("helper-interleave", "identity", "decl-churn"):
        nsess = max(nsess, 2)
    programs: dict = {}
    order: list[str] = []
    sessions: list[list[dict]] = []
    sm_run = bool(cfg.get("sourcemaps")) and r.random() < 0.5
    if sm_run:
        # under the source-map gate every Expr captures its stack: recursive ABI subroutines
        # (evaluated until RecursionError) would cost tens of seconds per build
        feats = dict(feats)
        feats["abi_recursion"] = False
    pcount = 0
    live_targets: list[str] = []
    nfaults_budget = r.choice([1, 1, 2, 3]) if enabled else 0

    def new_pid(prefix):
        nonlocal pcount
        pcount += 1
        return f"{prefix}{pcount}"

    def make_program(target: bool, want_router: bool, fault_sub=None, prog_fault=None):
        g = RecipeGen(rr, feats)
        pid = new_pid("T" if target else "N")
        if want_router:
            spec = g.gen_router_program(pid, target, fault_sub=fault_sub)
            if prog_fault == ["dup_method"]:
                # registering the same method twice: rejected at registration, last step of the build
                last = [st for st in spec["steps"] if st[0] == "add_method"][-1]
                spec["steps"].append(["add_method", last[1], last[2]])
        else:
            spec = g.gen_expr_program(pid, target, fault_sub=fault_sub, prog_fault=prog_fault)
        programs[pid] = spec
        order.append(pid)
        return spec

    for s in range(nsess):
        ops: list[dict] = []
        nprog = r.choice([1, 1, 2])
        for _ in range(nprog):
            is_noise = r.random() < KNOBS["noise_p"] and nsess > 1
            want_router = feats["abi"] and r.random() < KNOBS["router_p"]
            fault_sub = None
            prog_fault = None
            x = r.random()
            if "user" in enabled and x < (0.5 if is_noise else 0.1):
                if is_noise and r.random() < 0.5:
                    fault_sub = {"kind": "transient", "on": sorted({r.randrange(1, 4) for _ in range(r.randrange(1, 3))})}
                else:
                    fault_sub = {"kind": "raise"}
            elif "native" in enabled and x < (0.7 if is_noise else 0.3):
                y = r.random()
                if y < 0.17:
                    fault_sub = {"kind": "badtype"}
                elif y < 0.25:
                    fault_sub = {"kind": "badabi", "which": r.choice(BADABI)}
                elif y < 0.33:
                    fault_sub = {"kind": "nonexpr"}
                elif y < 0.4:
                    fault_sub = {"kind": "stray", "which": r.choice(["break", "continue"])}
                elif y < 0.75:
                    fault_sub = {"kind": "needv", "v": r.choice([5, 6, 7, 7, 8, 10])}
                elif not want_router:
                    prog_fault = r.choice([["slotdup", r.choice([5, 77])], ["rbw"], ["manyabi", r.choice([130, 260])], ["pop", ["badtype"]], ["pop", ["badabi", r.choice(BADABI)]], [r.choice(["break", "continue"])], ["pragma", "<0.1.0", ["pop", ["int", 1]]]])
                else:
                    prog_fault = ["dup_method"]
            spec = make_program(not is_noise, want_router, fault_sub, prog_fault)
            pid = spec["id"]
            nsteps = len(spec["steps"])
            pops: list[dict] = []
            if spec["kind"] == "router":
                first = spec["first_compilable"]
                for i in range(nsteps):
                    pops.append({"op": "build", "p": pid})
                    if i + 1 >= first and i + 1 < nsteps and r.random() < 0.35:
                        pops.append(_compile_op(r, spec, enabled, sm_run, [o for o in pops if o["op"] == "compile"]))
            else:
                for i in range(nsteps):
                    pops.append({"op": "build", "p": pid})
            # probes of Subroutine wrappers (type_of / has_return): any time after all defsubs
            ndef = 0  # length of the prefix of definition steps (subroutines, module-level variables)
            while ndef < len(spec["steps"]) and spec["steps"][ndef][0] in ("defsub", "defglobals"):
                ndef += 1
            subs_probe = [k for k, sb in enumerate(spec["subs"]) if sb["deco"] == "sub"]
            faulty = [k for k in subs_probe if spec["subs"][k].get("fault")]
            if subs_probe and r.random() < (0.8 if faulty else 0.35):
                for _ in range(r.randrange(1, 3)):
                    pos_candidates = [i for i in range(len(pops) + 1) if sum(1 for o in pops[:i] if o["op"] == "build") >= ndef]
                    pos = r.choice(pos_candidates)
                    pops.insert(pos, {"op": "probe", "p": pid, "k": r.choice(faulty if faulty and r.random() < 0.7 else subs_probe), "what": r.choice(["type_of", "has_return"])})
            ncomp = r.choice([1, 2, 2, 3, 4])
            for _ in range(ncomp):
                pops.append(_compile_op(r, spec, enabled, sm_run, [o for o in pops if o["op"] == "compile"]))
            if r.random() < 0.3:
                # same options again: the "repeat counts" axis
                last = [o for o in pops if o["op"] == "compile"][-1]
                pops.append({"op": "compile", "p": pid, "opts": last["opts"], "obs": bool(spec["target"])})
            if r.random() < 0.12:
                # hammer: the same call several times more
                last = [o for o in pops if o["op"] == "compile"][-1]
                for _ in range(r.randrange(2, 5)):
                    pops.append({"op": "compile", "p": pid, "opts": last["opts"], "obs": bool(spec["target"])})
            ops += pops
            if not is_noise:
                live_targets.append(pid)
        sessions.append(ops)

    # a real program of the repository as one more target (one per run: programs taken from one
    # module share its module-level subroutines, programs of a run must share no objects)
    if r.random() < 0.35:
        ex = r.choice(EXAMPLES)
        epid = new_pid("T")
        espec = {
            "id": epid, "kind": "example", "module": ex[0], "attr": ex[1], "args": ex[2], "mode": "app" if ex[3] == "router" else ex[3],
            "router": ex[3] == "router", "target": True, "subs": [], "steps": [["import"]] + ([] if ex[2] is None else [["call"]]), "minv": ex[4],
        }
        programs[epid] = espec
        order.append(epid)
        eops: list[dict] = [{"op": "build", "p": epid} for _ in espec["steps"]]
        for _ in range(r.choice([1, 2, 2, 3])):
            eops.append(_compile_op(r, espec, enabled, sm_run, [o for o in eops if o["op"] == "compile"]))
        sessions.append(eops)
        nsess += 1
        live_targets.append(epid)

    # scheduler: seeded interleaving of the sessions (API-call granularity)
    style = "uniform" if KNOBS["uniform"] else r.choice(["uniform", "uniform", "bursty", "sequential"])
    merged: list[dict] = []
    idx = [0] * nsess
    cur = None
    while True:
        alive = [i for i in range(nsess) if idx[i] < len(sessions[i])]
        if not alive:
            break
        if style == "sequential":
            i = alive[0]
        elif style == "bursty" and cur in alive and r.random() < 0.8:
            i = cur
        else:
            i = r.choice(alive)
        cur = i
        merged.append(sessions[i][idx[i]])
        idx[i] += 1
        if r.random() < 0.02:
            merged.append({"op": "gc", "n": r.randrange(10, 5000)})

    # some finished noise programs are dropped (all references released, collected): their
    # addresses - and with natural identities their id() values - are reused by later objects
    natural_ids = r.random() < KNOBS["natural_p"]
    noise_pids = [p for p in order if not programs[p]["target"]]
    if noise_pids and r.random() < KNOBS.get("drop_p", 0.6 if natural_ids else 0.2):
        for pid in r.sample(noise_pids, min(len(noise_pids), r.randrange(1, 3) if "drop_p" not in KNOBS else len(noise_pids))):
            last = max(i for i, o in enumerate(merged) if o.get("p") == pid)
            at = r.randrange(last + 1, len(merged) + 1)
            merged.insert(at, {"op": "drop", "p": pid})
            nspec = programs[pid]
            if nspec["kind"] == "expr" and not any(sb.get("fault") for sb in nspec["subs"]) and r.random() < (0.7 if natural_ids else 0.2):
                # "edit and re-run": the dropped program, slightly edited (some statements that only
                # USE variables removed), is built again from scratch - new objects, mostly at the
                # addresses of the dead ones - and compiled; it is a target with its own reference
                tspec = json.loads(json.dumps(nspec))
                tpid = new_pid("T")
                tspec["id"], tspec["target"] = tpid, True
                removable = [i for i, st in enumerate(tspec["steps"]) if st[0] == "stmt" and st[1][0] in ("pop", "assert", "log", "gput", "comment", "store", "pub")]
                for i in sorted(r.sample(removable, min(len(removable), r.randrange(1, 4))), reverse=True):
                    del tspec["steps"][i]
                programs[tpid] = tspec
                order.append(tpid)
                tops: list[dict] = [{"op": "build", "p": tpid} for _ in tspec["steps"]]
                for _ in range(r.choice([1, 2])):
                    tops.append(_compile_op(r, tspec, enabled, sm_run, [o for o in tops if o["op"] == "compile"]))
                merged[at + 1 : at + 1] = tops
                live_targets.append(tpid)

    # churn: bulk allocation by "other code" in the process (absolute counter values, addresses)
    if r.random() < 0.35:
        for _ in range(r.randrange(1, 4)):
            what = r.choice(["slots", "slots", "subs", "vars", "abi", "decls"])
            n = r.choice([3, 17, 100, 300, 1000, 4000]) if what in ("slots", "vars") else (r.choice([20, 150, 300]) if what == "decls" else r.choice([2, 9, 40, 120]))
            merged.insert(r.randrange(0, len(merged) + 1), {"op": "churn", "what": what, "n": n})
        if r.random() < 0.4:
            # push the slot-id counter to just below a decimal or binary boundary, so that the next
            # program's slots straddle it (ids compared as text, ids masked to a width, ...)
            b = r.choice([1000, 1000, 1024, 4096, 10000, 10000, 65536, 100000, 100000, 1000000])
            tcomp = [i for i, o in enumerate(merged) if o["op"] == "build" and programs[o["p"]]["target"]]
            at = r.choice(tcomp) if tcomp else r.randrange(0, len(merged) + 1)
            merged.insert(at, {"op": "churn", "what": "slots_until", "n": b - r.randrange(1, 8)})

    if KNOBS["decl_churn"]:
        # many declarations of unrelated programs evaluated and kept between a target's construction and one of its compiles
        tc = [i for i, o in enumerate(merged) if o["op"] == "compile" and programs[o["p"]]["target"]]
        for i in sorted(r.sample(tc, min(len(tc), 2)), reverse=True):
            merged.insert(i, {"op": "churn", "what": "decls", "n": r.choice([150, 300, 300])})

    # unrelated test code in the process: the public comparison contexts, sometimes with a failure inside
    if r.random() < (KNOBS["testctx_p"] if (KNOBS["testctx_p"] is not None and enabled) else (0.25 if enabled else 0.08)):
        for _ in range(r.randrange(1, 3)):
            merged.insert(r.randrange(0, len(merged) + 1), {"op": "testctx", "which": r.choice(["expr", "slot", "both"]), "inner": r.choice(["ok", "raise", "assert"]) if enabled else "ok"})

    # source-map gate phases
    if sm_run:
        # usually on from the start; sometimes switched on only after some programs were built
        first_on = 0 if (r.random() < 0.5 or len(merged) < 4) else r.randrange(len(merged) // 3, len(merged))
        merged.insert(first_on, {"op": "gate", "feature": "sourcemap_enabled", "value": True if r.random() < 0.75 else 1})
        if r.random() < 0.3:
            merged.insert(first_on + 1, {"op": "gate", "feature": "sourcemap_debug", "value": True})
        if r.random() < 0.4 and len(merged) > 4:
            pos = r.randrange(2, len(merged))
            merged.insert(pos, {"op": "gate", "feature": "sourcemap_enabled", "value": False})
            if r.random() < 0.5:
                pos2 = r.randrange(pos + 1, len(merged) + 1)
                merged.insert(pos2, {"op": "gate", "feature": "sourcemap_enabled", "value": True})
    _fix_sourcemap_ops(merged, programs)

    # faults on ops
    compile_idx = [i for i, o in enumerate(merged) if o["op"] in ("compile", "probe")]
    build_idx = [i for i, o in enumerate(merged) if o["op"] == "build"]
    placed = 0
    tries = 0
    while placed < nfaults_budget and tries < 20 and (compile_idx or build_idx):
        tries += 1
        kinds = [k for k in enabled if k in ("abort", "reclimit", "peer")]
        if not kinds:
            break
        k = r.choice(kinds)
        if k == "abort":
            pool = compile_idx if (r.random() < 0.85 or not build_idx) else build_idx
            if not pool:
                continue
            i = r.choice(pool)
            if merged[i].get("fault"):
                continue
            merged[i] = dict(merged[i])
            bias = r.choice(["uniform", "uniform", "proto", "eval", "router", "smoff", "probe"])
            sm_ops = [j for j in compile_idx if merged[j]["op"] == "compile" and merged[j]["opts"].get("sm") and not merged[j].get("fault")]
            if sm_ops and r.random() < 0.4:
                i, bias = r.choice(sm_ops), "smoff"
                merged[i] = dict(merged[i])
            merged[i]["fault"] = {"kind": "abort", "u": r.random(), "bias": bias}
            placed += 1
        elif k == "reclimit":
            pool = [i for i in compile_idx if merged[i]["op"] == "compile" and not programs[merged[i]["p"]]["target"]]
            if not pool:
                continue
            i = r.choice(pool)
            if merged[i].get("fault"):
                continue
            merged[i] = dict(merged[i])
            merged[i]["fault"] = {"kind": "reclimit", "headroom": r.choice([5, 10, 20, 30, 40, 60, 80])}
            merged[i]["obs"] = False
            placed += 1
        elif k == "peer":
            pool = [i for i in compile_idx if merged[i]["op"] == "compile" and (merged[i]["opts"].get("sm") or {}).get("pcs")]
            if not pool:
                continue
            i = r.choice(pool)
            merged[i] = dict(merged[i])
            merged[i]["algod"] = {"status": r.choice(["ok", "ok", "raise", "falsy"]), "compile": r.choice(["ok", "raise", "nomap"])}
            placed += 1

    # fault-free tail: every live target once more, plus a fresh canary program
    tail: list[dict] = []
    gate_on = False
    for o in merged:
        if o["op"] == "gate" and o["feature"] == "sourcemap_enabled":
            gate_on = o["value"]
    for pid in live_targets:
        tsm = sm_run and r.random() < 0.5 and not _has_recursive_abi(programs[pid])
        o = {"op": "compile", "p": pid, "opts": gen_opts(r, programs[pid], allow_sm=tsm), "obs": True}
        if (o["opts"].get("sm") or {}).get("pcs"):
            o["algod"] = {"status": "ok", "compile": "ok"}
        tail.append(o)
    feats2 = dict(feats)
    feats2["abi"] = True
    g = RecipeGen(rr, feats2)
    cpid = new_pid("C")
    canary = g.gen_expr_program(cpid, True) if r.random() < 0.7 else g.gen_router_program(cpid, True)
    programs[cpid] = canary
    order.append(cpid)
    for _ in canary["steps"]:
        tail.append({"op": "build", "p": cpid})
    tail.append({"op": "compile", "p": cpid, "opts": gen_opts(r, canary), "obs": True})
    if r.random() < 0.5:
        tail.append({"op": "compile", "p": cpid, "opts": gen_opts(r, canary), "obs": True})
    ops = merged + tail
    _fix_sourcemap_ops(ops, programs)
    return {
        "seed": seed,
        "hr_seed": sub_rng(seed, "hr").getrandbits(32) if not os.environ.get("SIM_NO_HR_JITTER") else None,
        "profile": profile,
        "features": feats,
        "faults_enabled": enabled,
        "schedule_style": style,
        "program_order": order,
        "programs": programs,
        "ops": ops,
        "tail_start": len(merged),
        # object identities: a seeded relabelling in most runs; natural addresses (no seam, objects
        # may die and their addresses be reused) in the rest
        "idhash_seed": sub_rng(seed, "idhash").getrandbits(48) if natural_ids is False else None,
    }


def _compile_op(r, spec, enabled, sm_run, prev: list | None = None) -> dict:
    if prev and r.random() < KNOBS.get("same_opts_p", 0.3):
        # the same options as an earlier compile of this program, with other activity in between
        o = json.loads(json.dumps(r.choice(prev)))
        o.pop("fault", None)
        return o
    nf = "native" in enabled and r.random() < (0.15 if spec["target"] else 0.3)
    allow_sm = sm_run and r.random() < 0.5 and not _has_recursive_abi(spec)
    o = {"op": "compile", "p": spec["id"], "opts": gen_opts(r, spec, native_fail=nf, allow_sm=allow_sm), "obs": bool(spec["target"])}
    if o["opts"].get("mode") and prev and r.random() < 0.75:
        # the other mode at a version this program was already compiled at
        o["opts"]["version"] = r.choice(prev)["opts"].get("version", o["opts"]["version"])
    nv = [sb["fault"]["v"] for sb in spec.get("subs", []) if (sb.get("fault") or {}).get("kind") == "needv"]
    if nv and not nf and r.random() < 0.6:
        # a body needs version v: compile just below it (rejected while that subroutine is being
        # lowered, after its elder siblings) and at it
        v = r.choice([nv[0] - 1, nv[0] - 1, nv[0]])
        if max(spec.get("minv", 2), 2) <= v <= 10:
            o["opts"]["version"] = v
            if v < 8 and (o["opts"].get("opt") or {}).get("fp"):
                o["opts"]["opt"]["fp"] = None
    elif prev and not nf and r.random() < 0.3:
        # the other side of a version boundary at which lowering changes (assert 3, callsub 4,
        # extract/cover 5, frame pointers 8, default slot optimisation 9) relative to an earlier compile
        pv = r.choice(prev)["opts"].get("version", 0)
        cands = [b - 1 if pv >= b else b for b in (3, 4, 5, 8, 9)]
        cands = [v for v in cands if max(spec.get("minv", 2), 2) <= v <= 10]
        if cands:
            o["opts"]["version"] = r.choice(cands)
            if o["opts"]["version"] < 8 and (o["opts"].get("opt") or {}).get("fp"):
                o["opts"]["opt"]["fp"] = None
    if (o["opts"].get("sm") or {}).get("pcs"):
        o["algod"] = {"status": "ok", "compile": "ok"}
    return o


def _has_recursive_abi(spec) -> bool:
    return any(s.get("recursive") and s["deco"] == "abi" for s in spec["subs"])


def _fix_sourcemap_ops(ops: list[dict], programs: dict) -> None:
    """A with-sourcemap compile is only meaningful for a program built entirely while the
    gate was on; otherwise strip the sourcemap request (keeps the plan static and the
    reference exact).  With the gate off the request stays: SourceMapDisabledError is a
    legitimate native failure."""
    gate = False
    all_on: dict = {}
    for o in ops:
        if o["op"] == "gate" and o["feature"] == "sourcemap_enabled":
            gate = o["value"]
        elif o["op"] == "build":
            all_on[o["p"]] = all_on.get(o["p"], True) and gate
        elif o["op"] == "compile" and o["opts"].get("sm"):
            if gate and not all_on.get(o["p"], False):
                o["opts"] = dict(o["opts"])
                o["opts"].pop("sm")
                o.pop("algod", None)
