"""Batch driver: seeds -> plans -> simulated runs in forked children of pristine zygotes ->
oracles (fresh-process reference, self-consistency, cross-seed determinism) -> minimised
replay files -> evidence."""

from __future__ import annotations

import concurrent.futures as cf
import difflib
import hashlib
import json
import os
import threading
import time

from sim import gen
from sim.pool import HarnessError, ZygotePool, VERIF_ROOT

HASHSEEDS = [0, 1, 12345, 4294967295, 2, 31337, 77777, 2147483648]
OUT_DIR = os.path.join(VERIF_ROOT, "out")
REPLAY_DIR = os.path.join(OUT_DIR, "replays")


def jdigest(x) -> str:
    return hashlib.sha256(json.dumps(x, sort_keys=True).encode()).hexdigest()[:20]


def outcome_key(o):
    """what the oracle compares: TEAL text byte for byte, or the exception class"""
    if o[0] == "ok":
        return ["ok", o[1], o[2]]
    return ["err", o[1]]


def outcome_brief(o):
    if o[0] == "ok":
        return "ok:" + hashlib.sha256(((o[1] or "") + "\0" + (o[2] or "")).encode()).hexdigest()[:12]
    return "err:" + o[1]


def is_stack_exhaustion(o) -> bool:
    return o[0] == "err" and o[1] == "RecursionError"


def mismatch_kind(obs_o, ref_o):
    if obs_o[0] == "ok" and ref_o[0] == "ok":
        return "teal-differs"
    if obs_o[0] == "ok":
        return "accepted-but-fresh-rejects:" + ref_o[1]
    if ref_o[0] == "ok":
        return "rejected-but-fresh-accepts:" + obs_o[1]
    return f"error-class-differs:{obs_o[1]}!={ref_o[1]}"


class Sim:
    def __init__(self, repo_root="/repo", replicas=1, refcache=True, hashseeds=None):
        self.hashseeds = list(hashseeds or HASHSEEDS)
        self.pool = ZygotePool(self.hashseeds, replicas, repo_root)
        self.repo_root = repo_root
        self.ref_lock = threading.Lock()
        self.refs_computed = 0
        self.ref_jobs = 0
        self.iso_jobs = 0  # kept for the evidence schema of earlier runs: no isolated reruns any more
        self.skipped_recursion = 0

    def close(self):
        self.pool.close()

    # ------------------------------------------------------------------ hash seeds
    def hashseeds_for(self, seed: int):
        hs = self.hashseeds
        i = seed % len(hs)
        j = (i + 1 + (seed // len(hs)) % (len(hs) - 1)) % len(hs)
        return hs[i], hs[j]

    # ------------------------------------------------------------------ jobs
    def execute(self, hs: int, programs: dict, ops: list, idhash_seed, timeout=60, hr_seed=None) -> dict:
        return self.pool.call(
            hs, {"kind": "run", "programs": programs, "ops": ops, "idhash_seed": idhash_seed, "hr_seed": hr_seed, "timeout": timeout}
        )

    # ------------------------------------------------------------------ oracles
    def references(self, hs: int, spec: dict, obs: list, gate_steps: list, build_upto: int, timeout=90) -> dict:
        """fresh-process references of all observed compiles of one program, in one job: the
        program is built alone in a pristine interpreter and a copy of that interpreter is forked
        for every compile (world.run_references)"""
        job = {
            "kind": "refs",
            "spec": spec,
            "gate_steps": gate_steps,
            "build_upto": build_upto,
            "observations": [
                {"i": ob["i"], "nsteps": ob["nsteps"], "gate_compile": ob["gate_compile"], "opts": ob["opts"], "algod": ob.get("algod")} for ob in obs
            ],
            "timeout": timeout,
        }
        out = self.pool.call(hs, job)
        with self.ref_lock:
            self.ref_jobs += 1
            self.refs_computed += out.get("forked_compiles", len(obs))
        return out

    @staticmethod
    def _viol(hist, via, ob, ref):
        return {
            "oracle": "fresh-process-reference",
            "via": via,
            "kind": mismatch_kind(ob["outcome"], ref),
            "p": ob["p"],
            "op_index": ob["i"],
            "opts": ob["opts"],
            "tie": bool(ob.get("tie")),
            "observed": ob["outcome"],
            "reference": ref,
            "hist": hist,
        }

    def judge(self, hist: dict, res: dict, ref0_budget=None, pick=None, full=True) -> list[dict]:
        """Oracle for one executed history `hist` = {programs, ops, hashseed, hashseed_ref,
        idhash_seed}.  The specification is C11 itself: EVERY observed compile of a target program P
        with options o must equal REF(P, o) = what a pristine process (other hash seed, natural
        object identities) produces when it builds P's recipe alone, up to the step count and gate
        values the history had, and compiles it once with o.  Also compared: the outcome class of
        each construction step of P (a program that a pristine process can build must be buildable
        after any history, and vice versa)."""
        viols: list[dict] = []
        programs = hist["programs"]
        hs_ref = hist["hashseed_ref"]
        by_p: dict = {}
        for ob in res["observations"]:
            by_p.setdefault(ob["p"], []).append(ob)
        blog = res.get("build_log") or {}
        for pid in [p for p in programs if programs[p].get("target") and p not in res.get("retired", [])]:
            obs = by_p.get(pid, [])
            steps_run: dict = {}
            for step, cls, idx in blog.get(pid, []):
                steps_run.setdefault(step, (cls, idx))
            if not obs and not steps_run:
                continue
            build_upto = (max(steps_run) + 1) if steps_run else 0
            gate_steps = (res.get("gate_attempt") or {}).get(pid) or (obs[-1]["gate_steps"] if obs else [])
            ref = self.references(hs_ref, programs[pid], obs, gate_steps, build_upto)
            for ob in obs:
                r = ref["outcomes"].get(str(ob["i"]))
                if r is None or (r[0] == "err" and r[1] == "HarnessError"):
                    raise HarnessError(f"reference missing for observation {ob['i']} of {pid}: {r}")
                if is_stack_exhaustion(ob["outcome"]) or is_stack_exhaustion(r) or (r[0] == "err" and r[1] == "BuildStuck:RecursionError"):
                    # RecursionError is a function of stack depth at entry, which C11 does not
                    # speak about: never compared (counted, so that it cannot silently grow)
                    with self.ref_lock:
                        self.skipped_recursion += 1
                    continue
                if outcome_key(ob["outcome"]) != outcome_key(r):
                    viols.append(self._viol(hist, "direct", ob, r))
            for j, rcls in enumerate(ref["build"]):
                if j not in steps_run:
                    break
                cls, idx = steps_run[j]
                if cls == "abort" or "RecursionError" in (cls, rcls):
                    break
                if cls != rcls:
                    ob = {"p": pid, "i": idx, "opts": {"build_step": j}, "outcome": ["ok", None, None] if cls == "ok" else ["err", cls, ""]}
                    viols.append(self._viol(hist, "build", ob, ["ok", None, None] if rcls == "ok" else ["err", rcls, ""]))
                    viols[-1]["kind"] = "build-" + viols[-1]["kind"]
                    break
                if cls != "ok":
                    break
        return viols

    # ------------------------------------------------------------------ known finding D3
    def explained_by_own_declaration_cache(self, v: dict) -> bool:
        """Causal test for finding D3: re-execute the violating history with the harness patch
        that drops, at the end of each compile/probe call of program P, the subroutine
        declarations that call evaluated and cached (world.Forget).  True iff the deviation is a
        pure TEAL difference without slot-id ties and the patched history produces exactly the
        fresh-process reference for this observation."""
        if v["kind"] != "teal-differs" or v.get("tie"):
            return False
        h = v["hist"]
        job = {
            "kind": "run",
            "programs": h["programs"],
            "ops": h["ops"],
            "idhash_seed": h["idhash_seed"],
            "forget_decls_for": v["p"],
            "timeout": 120,
        }
        res = self.pool.call(h["hashseed"], job)
        if not res.get("decls_dropped"):
            return False
        for ob in res["observations"]:
            if ob["i"] == v["op_index"] and ob["p"] == v["p"]:
                return outcome_key(ob["outcome"]) == outcome_key(v["reference"]) and not ob.get("tie")
        return False

    # ------------------------------------------------------------------ one run
    def run_seed(self, seed: int, cfg: dict) -> dict:
        plan = gen.gen_plan(seed, cfg)
        hs_run, hs_ref = self.hashseeds_for(seed)
        res = self.execute(hs_run, plan["programs"], plan["ops"], plan["idhash_seed"], hr_seed=plan.get("hr_seed"))
        hist = {
            "programs": plan["programs"],
            "ops": res["resolved_ops"],
            "hashseed": hs_run,
            "hashseed_ref": hs_ref,
            "idhash_seed": plan["idhash_seed"],
        }
        pick = gen.sub_rng(seed, "ref0")
        viols = self.judge(hist, res, cfg.get("ref0_budget", 3), pick)
        return {"seed": seed, "plan": plan, "res": res, "viols": viols, "hs": [hs_run, hs_ref], "hist": hist}

    # ------------------------------------------------------------------ replay
    @staticmethod
    def hist_of_replay(rp: dict) -> dict:
        return {
            "programs": rp["programs"],
            "ops": rp["ops"],
            "hashseed": rp.get("hashseed", rp.get("hashseed_run")),
            "hashseed_ref": rp["hashseed_ref"],
            "idhash_seed": rp["idhash_seed"],
        }

    def replay(self, rp: dict) -> list[dict]:
        """execute the recorded op list verbatim and compare EVERY observation in it with its
        fresh-process reference"""
        h = self.hist_of_replay(rp)
        res = self.execute(h["hashseed"], h["programs"], h["ops"], h["idhash_seed"])
        h["ops"] = res["resolved_ops"]
        return self.judge(h, res, full=True)

    # ------------------------------------------------------------------ minimise
    def minimise(self, rp: dict, target: dict, budget=150, avoid_known=True, wall_s=150.0) -> dict:
        """ddmin over the resolved op list, then program and fault simplification.  A candidate
        is kept only if the same violation class persists for the same program."""
        sig = (target["oracle"], target["kind"].split(":")[0], target["p"])
        tries = 0
        t_end = time.monotonic() + wall_s

        def reproduces(cand: dict) -> bool:
            nonlocal tries
            tries += 1
            if time.monotonic() > t_end:
                tries = max(tries, budget)  # out of time: every remaining loop sees an exhausted budget
                return False
            try:
                vs = self.replay(cand)
            except HarnessError:
                return False
            for v in vs:
                if (v["oracle"], v["kind"].split(":")[0], v["p"]) == sig:
                    # never let the minimiser slide from an unlisted violation into a listed one
                    try:
                        if avoid_known and self.explained_by_own_declaration_cache(v):
                            continue
                    except HarnessError:
                        continue
                    return True
            return False

        def with_ops(ops):
            used = []
            for o in ops:
                if o.get("p") is not None and o["p"] not in used:
                    used.append(o["p"])
            c = dict(rp_cur)
            c["ops"] = ops
            c["programs"] = {p: rp_cur["programs"][p] for p in rp_cur["programs"] if p in used}
            return c

        rp_cur = dict(rp)
        # 1. drop whole programs (sessions)
        for pid in list(rp_cur["programs"].keys()):
            if pid == target["p"] or tries >= budget:
                continue
            ops = [o for o in rp_cur["ops"] if o.get("p") != pid]
            c = with_ops(ops)
            if reproduces(c):
                rp_cur = c
        # 2. ddmin over ops
        n = 2
        ops = rp_cur["ops"]
        while len(ops) >= 2 and tries < budget:
            chunk = max(1, len(ops) // n)
            reduced = False
            for start in range(0, len(ops), chunk):
                cand_ops = ops[:start] + ops[start + chunk :]
                if not cand_ops:
                    continue
                c = with_ops(cand_ops)
                if reproduces(c):
                    ops = cand_ops
                    rp_cur = c
                    n = max(n - 1, 2)
                    reduced = True
                    break
                if tries >= budget:
                    break
            if not reduced:
                if chunk == 1:
                    break
                n = min(len(ops), n * 2)
        # 3. remove faults / gc ops one by one
        for i in range(len(rp_cur["ops"])):
            if tries >= budget:
                break
            o = rp_cur["ops"][i]
            if o.get("fault"):
                o2 = {k: v for k, v in o.items() if k != "fault"}
                c = dict(rp_cur)
                c["ops"] = rp_cur["ops"][:i] + [o2] + rp_cur["ops"][i + 1 :]
                if reproduces(c):
                    rp_cur = c
        # 4. shrink recipes: drop non-registering main statements and body statements
        for pid in list(rp_cur["programs"].keys()):
            spec = rp_cur["programs"][pid]
            i = len(spec["steps"]) - 1
            while i >= 0 and tries < budget:
                st = spec["steps"][i]
                if st[0] == "stmt" and st[1][0] not in ("newvar", "newabi", "newdyn"):
                    spec2 = dict(spec)
                    spec2["steps"] = spec["steps"][:i] + spec["steps"][i + 1 :]
                    c = dict(rp_cur)
                    c["programs"] = dict(rp_cur["programs"])
                    c["programs"][pid] = spec2
                    # one build op fewer for this program
                    ops2 = list(rp_cur["ops"])
                    for j in range(len(ops2) - 1, -1, -1):
                        if ops2[j]["op"] == "build" and ops2[j]["p"] == pid and not ops2[j].get("fault"):
                            del ops2[j]
                            break
                    c["ops"] = ops2
                    if reproduces(c):
                        rp_cur = c
                        spec = spec2
                i -= 1
            for k, sb in enumerate(spec["subs"]):
                j = len(sb["body"]) - 1
                while j >= 0 and tries < budget:
                    if sb["body"][j][0] not in ("newvar", "newabi", "newdyn", "oset"):
                        sb2 = dict(sb)
                        sb2["body"] = sb["body"][:j] + sb["body"][j + 1 :]
                        spec2 = dict(spec)
                        spec2["subs"] = spec["subs"][:k] + [sb2] + spec["subs"][k + 1 :]
                        c = dict(rp_cur)
                        c["programs"] = dict(rp_cur["programs"])
                        c["programs"][pid] = spec2
                        if reproduces(c):
                            rp_cur = c
                            spec = spec2
                            sb = sb2
                    j -= 1
        rp_cur["minimise_tries"] = tries
        return rp_cur

    def report(self, v: dict, seed, cfg_name, minimise=True, out_dir=None, avoid_known=True, wall_s=150.0) -> dict:
        """turn a violation into a (minimised) replay file; returns info incl. path"""
        h = v["hist"]
        rp = {
            "property": "C11",
            "seed": seed,
            "config": cfg_name,
            "hashseed": h["hashseed"],
            "hashseed_ref": h["hashseed_ref"],
            "idhash_seed": h["idhash_seed"],
            "programs": h["programs"],
            "ops": h["ops"],
        }
        if h.get("derived_from"):
            rp["derived_from"] = h["derived_from"]
        full_len = len(rp["ops"])
        minimised = False
        if minimise:
            try:
                m = self.minimise(rp, v, avoid_known=avoid_known, wall_s=wall_s)
                vs = [x for x in self.replay(m) if x["p"] == v["p"] and x["kind"].split(":")[0] == v["kind"].split(":")[0]]
                if vs:
                    rp = m
                    v = vs[0]
                    minimised = True
            except HarnessError:
                pass
        rp["violation"] = {k: v[k] for k in v if k not in ("observed", "reference", "hist")}
        rp["observed"] = v.get("observed")
        rp["reference"] = v.get("reference")
        if v.get("observed") and v.get("reference") and v["observed"][0] == "ok" and v["reference"][0] == "ok":
            d = []
            for which, name in ((1, "approval"), (2, "clear")):
                if (v["reference"][which] or "") != (v["observed"][which] or ""):
                    d += list(
                        difflib.unified_diff(
                            (v["reference"][which] or "").split("\n"),
                            (v["observed"][which] or "").split("\n"),
                            f"reference(fresh process) {name}",
                            f"observed(in history) {name}",
                            lineterm="",
                        )
                    )
            rp["diff"] = d[:120]
        rp["minimised"] = minimised
        rp["original_op_count"] = full_len
        out_dir = out_dir or REPLAY_DIR
        os.makedirs(out_dir, exist_ok=True)
        path = os.path.join(out_dir, f"C11-{seed}-{v.get('op_index', 0)}.json")
        with open(path, "w") as f:
            json.dump(rp, f, indent=1)
        return {"path": path, "violation": rp["violation"], "ops": len(rp["ops"]), "replay": rp}


# ------------------------------------------------------------------------------------------
# coverage accounting
# ------------------------------------------------------------------------------------------
class Coverage:
    def __init__(self):
        self.runs = 0
        self.ops = 0
        self.ops_by_kind: dict = {}
        self.res_by_kind: dict = {}
        self.observations = 0
        self.obs_ok = 0
        self.obs_err = 0
        self.faults_fired: dict = {}
        self.probes: dict = {}
        self.hist_sigs: set = set()
        self.nontrivial_sigs: set = set()
        self.states: set = set()
        self.transitions: set = set()
        self.hashseed_pairs: set = set()
        self.det_runs = 0
        self.samples: list = []
        self.obs_after_fault = 0
        self.profiles: dict = {}
        self.lock = threading.Lock()

    def add(self, r: dict):
        plan, res = r["plan"], r["res"]
        with self.lock:
            self.runs += 1
            pk = str(plan.get("profile") or "generic")
            self.profiles[pk] = self.profiles.get(pk, 0) + 1
            self.hashseed_pairs.add(tuple(r["hs"]))
            ren: dict = {}
            sig = []
            prev_st = None
            touched_by_other = False
            nontrivial = False
            progs_touched: list = []
            fault_seen = False
            for ev, op in zip(res["events"], res["resolved_ops"]):
                self.ops += 1
                k = ev["op"]
                self.ops_by_kind[k] = self.ops_by_kind.get(k, 0) + 1
                rk = k + ":" + ev["res"] + (":" + ev["cls"] if "cls" in ev else "")
                self.res_by_kind[rk] = self.res_by_kind.get(rk, 0) + 1
                p = ev.get("p")
                if p is not None and p not in ren:
                    ren[p] = len(ren)
                fk = (op.get("fault") or {}).get("kind")
                sig.append([k, ev["res"], ev.get("cls"), ren.get(p), fk, bool(op.get("obs"))])
                st = tuple(ev["st"])
                self.states.add(st)
                if prev_st is not None:
                    self.transitions.add((prev_st, k, ev["res"], st))
                prev_st = st
                if ev["res"] == "err" or ev["res"].startswith("abort"):
                    fault_seen = True
                if k == "compile" and op.get("obs"):
                    if any(q != p for q in progs_touched):
                        nontrivial = True
                    if fault_seen:
                        self.obs_after_fault += 1
                if p is not None and k in ("build", "compile", "probe"):
                    progs_touched.append(p)
            h = jdigest(sig)
            self.hist_sigs.add(h)
            if nontrivial:
                self.nontrivial_sigs.add(h)
            for ob in res["observations"]:
                self.observations += 1
                if ob["outcome"][0] == "ok":
                    self.obs_ok += 1
                else:
                    self.obs_err += 1
            for k, v in res["faults_fired"].items():
                self.faults_fired[k] = self.faults_fired.get(k, 0) + v
            for k, v in res["probes"].items():
                self.probes[k] = self.probes.get(k, 0) + v
            if len(self.samples) < 3:
                self.samples.append(
                    {
                        "seed": r["seed"],
                        "hashseeds_run_ref": r["hs"],
                        "schedule_style": plan["schedule_style"],
                        "faults_enabled": plan["faults_enabled"],
                        "ops": [
                            {
                                "op": o["op"],
                                "p": o.get("p"),
                                **({"opts": o["opts"]} if "opts" in o else {}),
                                **({"fault": o["fault"]} if o.get("fault") else {}),
                                "res": e["res"] + (":" + e["cls"] if "cls" in e else ""),
                            }
                            for o, e in zip(res["resolved_ops"], res["events"])
                        ],
                        "programs": {p: {"kind": s["kind"], "target": s["target"], "subs": len(s["subs"]), "steps": len(s["steps"])} for p, s in plan["programs"].items()},
                    }
                )


def run_batch(sim: Sim, seeds: list[int], cfg: dict, cov: Coverage, threads=24, deadline=None, stop_on_violation=True, on_run=None, stop_if=None, classify=None):
    """returns (violating run dicts, harness error strings)"""
    bad = []
    herrs = []
    stop = threading.Event()

    def one(seed):
        if stop.is_set() or (deadline and time.monotonic() > deadline) or (stop_if is not None and stop_if()):
            return None
        try:
            r = sim.run_seed(seed, cfg)
        except HarnessError as e:
            return ("herr", seed, str(e)[:500])
        cov.add(r)
        if on_run is not None:
            on_run(r)
        if r["viols"]:
            if classify is not None:
                with cov.lock:
                    classify(r)
            if stop_on_violation:
                stop.set()
            return ("viol", r)
        return None

    with cf.ThreadPoolExecutor(max_workers=threads) as ex:
        for out in ex.map(one, seeds):
            if out is None:
                continue
            if out[0] == "herr":
                herrs.append(out[1:])
            else:
                bad.append(out[1])
    return bad, herrs
