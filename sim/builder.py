"""Recipe interpreter: turns pure-data recipes into real PyTeal objects by calling
the public constructors.  Runs only inside a forked child of a zygote (sim/zygote.py).

A *program recipe* is JSON-able data:

  {"id": "P0", "kind": "expr"|"router", "mode": "app"|"sig", "target": bool,
   "subs": [subspec...], "steps": [step...], "final": expr}

Steps are executed one at a time (one scheduler op each), so construction of several
programs can interleave.  The same interpreter builds the reference in a pristine process.

Expressions / statements are nested lists, see `Ctx.expr` / `Ctx.stmt`.
"""

from __future__ import annotations

import inspect
from typing import Literal

import pyteal as pt
from pyteal import abi


class UserFault(ValueError):
    """Raised by a generated subroutine body (fault kind F-B: user-callback fault)."""


ABI_TYPES = {
    "uint64": abi.Uint64,
    "uint32": abi.Uint32,
    "uint16": abi.Uint16,
    "uint8": abi.Uint8,
    "byte": abi.Byte,
    "bool": abi.Bool,
    "string": abi.String,
    "address": abi.Address,
    "(uint64,uint8)": abi.Tuple2[abi.Uint64, abi.Uint8],
    "(bool,uint64,bool)": abi.Tuple3[abi.Bool, abi.Uint64, abi.Bool],
    "uint64[]": abi.DynamicArray[abi.Uint64],
    "uint16[3]": abi.StaticArray[abi.Uint16, Literal[3]],
    "account": abi.Account,
    "asset": abi.Asset,
    "application": abi.Application,
    "pay": abi.PaymentTransaction,
    "txn": abi.Transaction,
}

# element types of the composite types above (for tupset/arrset/tupget/arrget)
ELEMS = {
    "(uint64,uint8)": ["uint64", "uint8"],
    "(bool,uint64,bool)": ["bool", "uint64", "bool"],
    "uint64[]": ["uint64"],
    "uint16[3]": ["uint16"],
}

CALLCFG = {
    "CALL": pt.CallConfig.CALL,
    "CREATE": pt.CallConfig.CREATE,
    "ALL": pt.CallConfig.ALL,
    "NEVER": pt.CallConfig.NEVER,
}

TT = {"u": pt.TealType.uint64, "b": pt.TealType.bytes, "n": pt.TealType.none, "any": pt.TealType.anytype}

BINOPS = {
    "add": pt.Add,
    "sub": pt.Minus,
    "mul": pt.Mul,
    "lt": pt.Lt,
    "gt": pt.Gt,
    "eq": pt.Eq,
    "neq": pt.Neq,
    "and": pt.And,
    "or": pt.Or,
    "mod": pt.Mod,
    "bitand": pt.BitwiseAnd,
}

# expressions that need at least program version k (used to build native failures F-A)
def _badabi(which: str):
    from typing import Literal
    from pyteal import abi

    if which == "bigtuple":
        # static head of 65536 + 2 bytes: the uint16 tail offset of the dynamic member overflows
        # AFTER the helper storage of the tuple encoder was allocated
        big = abi.make(abi.StaticArray[abi.Byte, Literal[65536]])
        rec = abi.make(abi.Tuple2[abi.StaticArray[abi.Byte, Literal[65536]], abi.String])
        return rec.set(big, abi.String())
    if which == "uintover":
        return abi.Uint8().set(300)
    if which == "arrlen":
        return abi.make(abi.StaticArray[abi.Uint64, Literal[3]]).set([abi.Uint64(), abi.Uint64()])
    if which == "arity":
        return abi.make(abi.Tuple2[abi.Uint64, abi.String]).set(abi.Uint64())
    if which == "elemtype":
        return abi.make(abi.Tuple2[abi.Uint64, abi.String]).set(abi.Uint64(), abi.Uint64())
    if which == "dynelem":
        return abi.make(abi.DynamicArray[abi.String]).set([abi.String(), abi.Uint64()])
    if which == "addr":
        return abi.Address().set("short")
    if which == "boolarr":
        return abi.make(abi.StaticArray[abi.Bool, Literal[2]]).set([abi.Bool()])
    if which == "idx":
        return abi.make(abi.StaticArray[abi.Uint64, Literal[3]])[5].use(lambda v: pt.Pop(v.get()))
    if which == "tupidx":
        return abi.make(abi.Tuple2[abi.Uint64, abi.String])[2].use(lambda v: pt.Pop(v.encode()))
    raise KeyError(which)


def _needv(k: int, mode: str):
    if k <= 2:
        return pt.Int(1)
    if k == 3:
        return pt.GetBit(pt.Int(5), pt.Int(0))
    if k == 4:
        return pt.Sqrt(pt.Int(9))
    if k == 5:
        return pt.Len(pt.Extract(pt.Bytes("abcd"), pt.Int(0), pt.Int(2)))
    if k == 6:
        return pt.Len(pt.BytesSqrt(pt.Bytes("base16", "0x09")))
    if k == 7:
        return pt.Len(pt.Sha3_256(pt.Bytes("a")))
    if k == 8:
        if mode == "app":
            return pt.Seq(pt.Pop(pt.App.box_create(pt.Bytes("bx"), pt.Int(8))), pt.Int(1))
        return pt.Len(pt.Sha3_256(pt.Bytes("a")))
    return pt.Len(pt.EcAdd(pt.EllipticCurve.BN254g1, pt.Bytes("a"), pt.Bytes("b")))


def _shared_one():
    return pt.Int(1)


def _shared_inc(x):
    return x + pt.Int(1)


def _shared_tmp(x):
    v = pt.ScratchVar(pt.TealType.uint64)
    return pt.Seq(v.store(x), v.load() + v.load())


def _shared_add(x, y):
    w = pt.ScratchVar(pt.TealType.uint64)
    return pt.Seq(w.store(x + y), w.load())


# plain Python functions of "a helper module" that several programs decorate for themselves:
# user code shared between programs, not a PyTeal object
SHARED_FNS = {"one": _shared_one, "inc": _shared_inc, "tmp": _shared_tmp, "add": _shared_add}


class Ctx:
    """Evaluation context for expressions/statements: main routine or one body evaluation."""

    def __init__(self, env: "ProgramEnv", *, params=None, pkinds=None, output=None, in_sub=None):
        self.env = env
        self.vars: list = env.vars if in_sub is None else []
        self.abis: list = env.abis if in_sub is None else []
        self.dyns: list = env.dyns if in_sub is None else []
        self.params = params or []
        self.pkinds = pkinds or []
        self.output = output
        self.in_sub = in_sub

    # ---- expressions -------------------------------------------------------------
    def expr(self, e):
        k = e[0]
        env = self.env
        if k == "int":
            return pt.Int(e[1])
        if k == "bytes":
            return pt.Bytes(e[1])
        if k == "hex":
            return pt.Bytes("base16", e[1])
        if k == "b64":
            return pt.Bytes("base64", e[1])
        if k == "addr":
            return pt.Addr(e[1])
        if k == "enum":
            return {"pay": pt.TxnType.Payment, "axfer": pt.TxnType.AssetTransfer, "noop": pt.OnComplete.NoOp, "optin": pt.OnComplete.OptIn}[e[1]]
        if k == "txn":
            f = e[1]
            if f == "sender":
                return pt.Txn.sender()
            if f == "fee":
                return pt.Txn.fee()
            if f == "fv":
                return pt.Txn.first_valid()
            if f == "amount":
                return pt.Txn.amount()
            if f == "note":
                return pt.Txn.note()
            if f == "appid":
                return pt.Txn.application_id()
            if f == "oc":
                return pt.Txn.on_completion()
            raise KeyError(f)
        if k == "apparg":
            return pt.Txn.application_args[e[1]]
        if k == "arg":
            return pt.Arg(e[1])
        if k == "global":
            f = e[1]
            if f == "round":
                return pt.Global.round()
            if f == "ts":
                return pt.Global.latest_timestamp()
            if f == "gsize":
                return pt.Global.group_size()
            if f == "zero":
                return pt.Global.zero_address()
            raise KeyError(f)
        if k == "bin":
            return BINOPS[e[1]](self.expr(e[2]), self.expr(e[3]))
        if k == "concat":
            return pt.Concat(self.expr(e[1]), self.expr(e[2]))
        if k == "len":
            return pt.Len(self.expr(e[1]))
        if k == "itob":
            return pt.Itob(self.expr(e[1]))
        if k == "substr":
            x, a, b = self.expr(e[2]), self.expr(e[3]), self.expr(e[4])
            if e[1] == "substring":
                return pt.Substring(x, a, b)
            if e[1] == "extract":
                return pt.Extract(x, a, b)
            return pt.Suffix(x, a)
        if k == "btoi":
            return pt.Btoi(self.expr(e[1]))
        if k == "not":
            return pt.Not(self.expr(e[1]))
        if k == "sha":
            return pt.Sha256(self.expr(e[1]))
        if k == "load":
            return self.vars[e[1]].load()
        if k == "gvload":
            return env.gvars[e[1]].load()
        if k == "dload":
            return self.dyns[e[1]].load()
        if k == "aget":
            return self.abis[e[1]].get()
        if k == "param":
            return self.params[e[1]]
        if k == "pload":
            return self.params[e[1]].load()
        if k == "paget":
            return self.params[e[1]].get()
        if k == "oget":
            return self.output.get()
        if k == "arrlen":
            return self.abis[e[1]].length()
        if k == "call":
            return env.subs[e[1]](*[self.arg(a) for a in e[2]])
        if k == "ife":
            return pt.If(self.expr(e[1]), self.expr(e[2]), self.expr(e[3]))
        if k == "tmpl":
            if e[1] == "int":
                return pt.Tmpl.Int(e[2])
            if e[1] == "bytes":
                return pt.Tmpl.Bytes(e[2])
            return pt.Tmpl.Addr(e[2])
        if k == "gex":
            mv = pt.App.globalGetEx(pt.Int(0), pt.Bytes(e[1]))
            return pt.Seq(mv, pt.If(mv.hasValue(), mv.value(), pt.Int(e[2])))
        if k == "gget":
            return pt.App.globalGet(pt.Bytes(e[1]))
        if k == "bal":
            mv = pt.AssetHolding.balance(pt.Int(0), pt.Int(e[1]))
            return pt.Seq(mv, mv.value())
        if k == "zoo":
            args = [self.expr(a) for a in e[-1]]
            if e[1] == "fn":
                return getattr(pt, e[2])(*args)
            f = getattr(getattr(pt, e[2]), e[3])
            if e[1] == "maybe":
                mv = f(*args)
                return pt.Seq(mv, mv.value())
            return f(*args)
        if k == "needv":
            return _needv(e[1], env.spec.get("mode", "app"))
        if k == "wide":
            return pt.WideRatio([self.expr(x) for x in e[1]], [self.expr(x) for x in e[2]])
        if k == "seqe":
            return pt.Seq(*[self.stmt(s) for s in e[1]], self.expr(e[2]))
        if k == "badtype":
            # well-formed data, ill-typed program: PyTeal raises TealTypeError while building
            return pt.Add(pt.Int(1), pt.Bytes("x"))
        if k == "badabi":
            # well-formed data, an ABI construction PyTeal rejects while building (TealInputError
            # raised part-way through an encode/set/index helper)
            return _badabi(e[1])
        if k == "encode":
            return self.abis[e[1]].encode()
        if k == "msel":
            return pt.MethodSignature(e[1])
        raise KeyError(f"unknown expr {k}")

    def arg(self, a):
        k = a[0]
        if k == "varref":
            return self.vars[a[1]]
        if k == "abiref":
            return self.abis[a[1]]
        if k == "pabiref":
            return self.params[a[1]]
        if k == "oref":
            return self.output
        return self.expr(a)

    # ---- statements --------------------------------------------------------------
    def stmts(self, ss):
        return [self.stmt(s) for s in ss]

    def block(self, ss):
        out = self.stmts(ss)
        if len(out) == 1:
            return out[0]
        return pt.Seq(*out)

    def stmt(self, s):
        k = s[0]
        env = self.env
        if k == "store":
            return self.vars[s[1]].store(self.expr(s[2]))
        if k == "pub":
            v = self.vars[s[1]]
            return pt.Seq(v.store(self.expr(s[2])), pt.Pop(v.load()))
        if k == "gvstore":
            return env.gvars[s[1]].store(self.expr(s[2]))
        if k == "gvpub":
            v = env.gvars[s[1]]
            return pt.Seq(v.store(self.expr(s[2])), pt.Pop(v.load()))
        if k == "newvar":
            # create a local ScratchVar and initialise it at once
            v = pt.ScratchVar(TT[s[1]], s[3] if len(s) > 3 else None)
            self.vars.append(v)
            return v.store(self.expr(s[2]))
        if k == "newdyn":
            d = pt.DynamicScratchVar(TT[s[1]])
            self.dyns.append(d)
            return d.set_index(self.vars[s[2]])
        if k == "dynset":
            return self.dyns[s[1]].set_index(self.vars[s[2]])
        if k == "dstore":
            return self.dyns[s[1]].store(self.expr(s[2]))
        if k == "newabi":
            a = abi.make(env.abi_type(s[1]))
            self.abis.append(a)
            return self._abiset(a, s[1], s[2])
        if k == "aset":
            return self._abiset(self.abis[s[1]], s[2], s[3])
        if k == "aset_call":
            return self.abis[s[1]].set(env.subs[s[2]](*[self.arg(a) for a in s[3]]))
        if k == "store_into_call":
            return env.subs[s[2]](*[self.arg(a) for a in s[3]]).store_into(self.abis[s[1]])
        if k == "use_call":
            inner = s[3]
            return env.subs[s[1]](*[self.arg(a) for a in s[2]]).use(
                lambda v: self._with_tmp_abi(v, inner)
            )
        if k == "oset":
            return self._abiset(self.output, s[1], s[2])
        if k == "oset_call":
            return self.output.set(env.subs[s[1]](*[self.arg(a) for a in s[2]]))
        if k == "tupget":
            return self.abis[s[1]][s[2]].store_into(self.abis[s[3]])
        if k == "arrget":
            return self.abis[s[1]][self.expr(s[2])].store_into(self.abis[s[3]])
        if k == "pop":
            return pt.Pop(self.expr(s[1]))
        if k == "assert":
            if len(s) > 2:
                return pt.Assert(self.expr(s[1]), comment=s[2])
            return pt.Assert(self.expr(s[1]))
        if k == "gput":
            return pt.App.globalPut(pt.Bytes(s[1]), self.expr(s[2]))
        if k == "log":
            return pt.Log(self.expr(s[1]))
        if k == "mret":
            return abi.MethodReturn(self.abis[s[1]])
        if k == "if":
            c = pt.If(self.expr(s[1])).Then(self.block(s[2]))
            if len(s) > 3 and s[3] is not None:
                c = c.Else(self.block(s[3]))
            return c
        if k == "cond":
            return pt.Cond(*[[self.expr(c), self.block(b)] for c, b in s[1]])
        if k == "while":
            return pt.While(self.expr(s[1])).Do(self.block(s[2]))
        if k == "for":
            v = self.vars[s[1]]
            return pt.For(
                v.store(pt.Int(0)), v.load() < pt.Int(s[2]), v.store(v.load() + pt.Int(1))
            ).Do(self.block(s[3]))
        if k == "break":
            return pt.Break()
        if k == "continue":
            return pt.Continue()
        if k == "callnone":
            return env.subs[s[1]](*[self.arg(a) for a in s[2]])
        if k == "pstore":
            return self.params[s[1]].store(self.expr(s[2]))
        if k == "paset":
            return self._abiset(self.params[s[1]], s[2], s[3])
        if k == "comment":
            return pt.Comment(s[1], self.stmt(s[2]))
        if k == "seq":
            return pt.Seq(*self.stmts(s[1]))
        if k == "ret":
            return pt.Return(self.expr(s[1])) if s[1] is not None else pt.Return()
        if k == "approve":
            return pt.Approve()
        if k == "raise":
            raise UserFault(f"user fault in {self.in_sub}")
        if k == "maybe_raise":
            # transient fault: raise on exactly the listed evaluation numbers of this body
            if env.eval_counts.get(self.in_sub, 0) in s[1]:
                raise UserFault(f"transient user fault in {self.in_sub}")
            return pt.Pop(pt.Int(7))
        if k == "slotdup":
            # two variables requesting the same slot id: rejected at compile time
            a = pt.ScratchVar(pt.TealType.uint64, s[1])
            b = pt.ScratchVar(pt.TealType.uint64, s[1])
            return pt.Seq(a.store(pt.Int(1)), b.store(pt.Int(2)), pt.Pop(a.load() + b.load()))
        if k == "rbw":
            # read before write of a routine-local slot: rejected at compile time
            v = pt.ScratchVar(pt.TealType.uint64)
            return pt.Pop(v.load())
        if k == "manyabi":
            # n ABI temporaries in one routine (frame->scratch fallback past 128 locals)
            xs = [abi.Uint64() for _ in range(s[1])]
            return pt.Seq(*[x.set(pt.Int(i)) for i, x in enumerate(xs)], pt.Pop(xs[-1].get()))
        if k == "opup":
            src = {"credit": pt.OpUpFeeSource.GroupCredit, "app": pt.OpUpFeeSource.AppAccount, "any": pt.OpUpFeeSource.Any}[s[3]]
            up = pt.OpUp(pt.OpUpMode.OnCall) if s[1] == "oncall" else pt.OpUp(pt.OpUpMode.Explicit, pt.Int(1))
            return up.ensure_budget(pt.Int(s[2]), src)
        if k == "mcall":
            fields = {
                "fee": (pt.TxnField.fee, pt.Int(0)),
                "note": (pt.TxnField.note, pt.Bytes("n")),
                "oc": (pt.TxnField.on_completion, pt.OnComplete.NoOp),
                "rekey": (pt.TxnField.rekey_to, pt.Global.zero_address()),
                "accounts": (pt.TxnField.accounts, [pt.Txn.sender()]),
            }
            extra = {fields[x][0]: fields[x][1] for x in (s[3] if len(s) > 3 else [])}
            return pt.InnerTxnBuilder.ExecuteMethodCall(app_id=pt.Int(1), method_signature=s[1], args=[self.arg(a) for a in s[2]], extra_fields=extra or None)
        if k == "pragma":
            return pt.Pragma(self.stmt(s[2]), compiler_version=s[1])
        if k == "itxn_arr":
            arr = {
                "accounts": (pt.TxnField.accounts, pt.Txn.accounts),
                "apps": (pt.TxnField.applications, pt.Txn.applications),
                "args": (pt.TxnField.application_args, pt.Txn.application_args),
                "assets": (pt.TxnField.assets, pt.Txn.assets),
            }[s[1]]
            return pt.Seq(
                pt.InnerTxnBuilder.Begin(),
                pt.InnerTxnBuilder.SetFields({pt.TxnField.type_enum: pt.TxnType.ApplicationCall, pt.TxnField.fee: self.expr(s[2])}),
                pt.InnerTxnBuilder.SetField(arr[0], arr[1]),
                pt.InnerTxnBuilder.Submit(),
            )
        if k == "itxn":
            return pt.Seq(
                pt.InnerTxnBuilder.Begin(),
                pt.InnerTxnBuilder.SetFields(
                    {
                        pt.TxnField.type_enum: pt.TxnType.Payment,
                        pt.TxnField.amount: self.expr(s[1]),
                        pt.TxnField.receiver: pt.Txn.sender(),
                    }
                ),
                pt.InnerTxnBuilder.Submit(),
            )
        raise KeyError(f"unknown stmt {k}")

    def _with_tmp_abi(self, v, inner):
        self.abis.append(v)
        try:
            return self.block(inner)
        finally:
            self.abis.pop()

    def _abiset(self, a, t, val):
        """val: ["e", expr] | ["copy", abiidx] | ["elems", [abiidx...]] | ["lit", python literal]"""
        vk = val[0]
        if vk == "e":
            return a.set(self.expr(val[1]))
        if vk == "lit":
            return a.set(val[1])
        if vk == "copy":
            return a.set(self.abis[val[1]])
        if vk == "pcopy":
            return a.set(self.params[val[1]])
        if vk == "elems":
            xs = [self.abis[i] for i in val[1]]
            if t.endswith("[]") or t.endswith("]"):
                return a.set(xs)
            return a.set(*xs)
        raise KeyError(vk)


def _annotation(pk, env):
    if pk[0] == "expr":
        return pt.Expr
    if pk[0] == "ref":
        return pt.ScratchVar
    if pk[0] == "abi":
        return env.abi_type(pk[1])
    if pk[0] == "none":
        return None
    raise KeyError(pk)


class ProgramEnv:
    def __init__(self, spec: dict):
        self.spec = spec
        self.subs: list = [None] * len(spec.get("subs", []))
        self.vars: list = []
        self.abis: list = []
        self.dyns: list = []
        self.built: list = []  # statements of the main routine built so far
        self.router = None
        self.ast = None
        self.eval_counts: dict = {}
        self.next_step = 0
        self.optimize_objs: dict = {}
        self.comp_objs: dict = {}
        self.module = None
        self.gvars: list = []
        self.nt_classes: dict = {}
        self.shared_pool: dict | None = None  # options objects shared by all programs of a run
        self.main_ctx = Ctx(self)

    def abi_type(self, name: str):
        if name in ABI_TYPES:
            return ABI_TYPES[name]
        c = self.nt_classes.get(name)
        if c is None:
            fields = self.spec["ntypes"][name]
            anns = {f"f{i}": abi.Field[ABI_TYPES[t]] for i, t in enumerate(fields)}
            c = self.nt_classes[name] = type(name.capitalize() + "_" + str(self.spec.get("id", "")), (abi.NamedTuple,), {"__annotations__": anns})
        return c

    # ---- subroutines -------------------------------------------------------------
    def define_sub(self, k: int):
        ss = self.spec["subs"][k]
        env = self
        name = ss["name"]
        params = ss["params"]
        deco = ss["deco"]
        out_t = ss["ret"] if deco == "abi" and ss["ret"] not in ("void",) else None

        def impl(*args, **kwargs):
            env.eval_counts[name] = env.eval_counts.get(name, 0) + 1
            ctx = Ctx(
                env,
                params=list(args),
                pkinds=params,
                output=kwargs.get("output"),
                in_sub=name,
            )
            body = ctx.stmts(ss["body"])
            if ss.get("retexpr") is not None:
                body.append(ctx.expr(ss["retexpr"]))
            if ss.get("nonexpr"):
                return 42  # body returning a non-Expr: TealInputError at evaluation
            if not body:
                return pt.Seq()
            return pt.Seq(*body) if len(body) > 1 else body[0]

        sig_params = []
        annotations = {}
        for i, pk in enumerate(params):
            pname = f"a{i}"
            ann = _annotation(pk, self)
            if ann is None:
                sig_params.append(inspect.Parameter(pname, inspect.Parameter.POSITIONAL_OR_KEYWORD))
            else:
                sig_params.append(
                    inspect.Parameter(pname, inspect.Parameter.POSITIONAL_OR_KEYWORD, annotation=ann)
                )
                annotations[pname] = ann
        if out_t is not None:
            sig_params.append(
                inspect.Parameter("output", inspect.Parameter.KEYWORD_ONLY, annotation=self.abi_type(out_t))
            )
            annotations["output"] = self.abi_type(out_t)
        impl.__signature__ = inspect.Signature(sig_params)
        impl.__annotations__ = annotations
        impl.__name__ = name
        impl.__qualname__ = name
        if ss.get("doc"):
            impl.__doc__ = ss["doc"]

        label = ss.get("label")
        if ss.get("shared_fn"):
            w = pt.Subroutine(TT[ss["ret"]], name=label)(SHARED_FNS[ss["shared_fn"]])
        elif deco == "sub":
            w = pt.Subroutine(TT[ss["ret"]], name=label)(impl)
        elif deco == "abi":
            w = pt.ABIReturnSubroutine(impl, overriding_name=label) if label else pt.ABIReturnSubroutine(impl)
        else:
            raise KeyError(deco)
        self.subs[k] = w
        return w

    # ---- steps -------------------------------------------------------------------
    def do_step(self, i: int):
        st = self.spec["steps"][i]
        k = st[0]
        if k == "defsub":
            self.define_sub(st[1])
        elif k == "import":
            import importlib

            self.module = importlib.import_module(self.spec["module"])
            if self.spec.get("args") is None:
                obj = getattr(self.module, self.spec["attr"])
                if self.spec.get("router"):
                    self.router = obj
                else:
                    self.ast = obj
        elif k == "call":
            self.ast = getattr(self.module, self.spec["attr"])(*self.spec["args"])
        elif k == "defglobals":
            self.gvars = [pt.ScratchVar(TT[t], sid) for t, sid in self.spec.get("globals", [])]
        elif k == "stmt":
            self.built.append(self.main_ctx.stmt(st[1]))
        elif k == "final":
            self.ast = pt.Seq(*self.built, self.main_ctx.expr(st[1]))
            if self.spec.get("nonce"):
                self.ast = pt.Nonce(self.spec["nonce"][0], self.spec["nonce"][1], self.ast)
        elif k == "router_new":
            self.router = self._router_new(st[1])
        elif k == "add_method":
            self._add_method(st[1], st[2])
        else:
            raise KeyError(k)

    def _action(self, a):
        """a: ["expr", stmts] | ["sub", k] | ["abisub", k]"""
        if a[0] == "expr":
            return self.main_ctx.block(a[1])
        return self.subs[a[1]]

    def _router_new(self, cfg):
        bare = {}
        for oc, (action, cc) in cfg.get("bare", {}).items():
            bare[oc] = pt.OnCompleteAction(action=self._action(action), call_config=CALLCFG[cc])
        kwargs = {}
        if cfg.get("clear") is not None:
            kwargs["clear_state"] = self._action(cfg["clear"])
        return pt.Router(
            cfg.get("name", "R"),
            pt.BareCallActions(**bare) if bare else None,
            **kwargs,
        )

    def _add_method(self, k, cfg):
        mc = pt.MethodConfig(**{oc: CALLCFG[cc] for oc, cc in cfg.get("mc", {"no_op": "CALL"}).items()})
        self.router.add_method_handler(
            self.subs[k], overriding_name=cfg.get("name"), method_config=mc
        )

    # ---- compile -----------------------------------------------------------------
    def optimize(self, o):
        """o: None | {"ss": bool|None, "fp": bool|None, "shared": bool}"""
        if o is None:
            return None
        key = (o.get("ss"), o.get("fp"))
        if o.get("shared") == "S" and self.shared_pool is not None:
            if key not in self.shared_pool:
                self.shared_pool[key] = pt.OptimizeOptions(scratch_slots=key[0], frame_pointers=key[1])
            return self.shared_pool[key]
        if o.get("shared"):
            if key not in self.optimize_objs:
                self.optimize_objs[key] = pt.OptimizeOptions(scratch_slots=key[0], frame_pointers=key[1])
            return self.optimize_objs[key]
        return pt.OptimizeOptions(scratch_slots=key[0], frame_pointers=key[1])

    def compile(self, opts: dict, algod=None):
        """Returns (approval_teal, clear_teal|None)."""
        mode = pt.Mode.Application if opts.get("mode", self.spec.get("mode", "app")) == "app" else pt.Mode.Signature
        optimize = self.optimize(opts.get("opt"))
        version = opts["version"]
        ac = bool(opts.get("ac"))
        sm = opts.get("sm")  # None | {"annotate": bool, "pcs": bool, "concise": bool}
        is_router = self.spec["kind"] == "router" or bool(self.spec.get("router"))
        if opts.get("reuse_comp") == "mutate" and not is_router and sm is None:
            # ONE Compilation object per program; the caller changes its public attributes
            comp = self.comp_objs.get("mutate")
            if comp is None:
                comp = self.comp_objs["mutate"] = pt.Compilation(self.ast, mode, version=version, assemble_constants=ac, optimize=optimize)
            else:
                comp.version = version
                comp.assemble_constants = ac
                comp.optimize = optimize or pt.OptimizeOptions()
            return comp.compile().teal, None
        if opts.get("reuse_comp") and not is_router and sm is None:
            # the same Compilation object compiled again ("compiling the same object again")
            key = repr(sorted((k, repr(v)) for k, v in opts.items() if k != "reuse_comp"))
            comp = self.comp_objs.get(key)
            if comp is None:
                comp = self.comp_objs[key] = pt.Compilation(self.ast, mode, version=version, assemble_constants=ac, optimize=optimize)
            return comp.compile().teal, None
        if is_router:
            if sm is None and not opts.get("via_compile"):
                ap, cl, _contract = self.router.compile_program(
                    version=version, assemble_constants=ac, optimize=optimize
                )
                return ap, cl
            kw = {}
            if sm is not None:
                kw = dict(
                    with_sourcemaps=True,
                    pcs_in_sourcemap=bool(sm.get("pcs")),
                    algod_client=algod,
                    annotate_teal=bool(sm.get("annotate")),
                    annotate_teal_concise=bool(sm.get("concise", True)),
                )
            res = self.router.compile(version=version, assemble_constants=ac, optimize=optimize, **kw)
            return res.approval_teal, res.clear_teal
        if sm is None and not opts.get("via_compile"):
            return (
                pt.compileTeal(self.ast, mode, version=version, assembleConstants=ac, optimize=optimize),
                None,
            )
        comp = pt.Compilation(self.ast, mode, version=version, assemble_constants=ac, optimize=optimize)
        kw = {}
        if sm is not None:
            kw = dict(
                with_sourcemap=True,
                pcs_in_sourcemap=bool(sm.get("pcs")),
                algod_client=algod,
                annotate_teal=bool(sm.get("annotate")),
                annotate_teal_concise=bool(sm.get("concise", False)),
            )
        return comp.compile(**kw).teal, None

    def probe(self, k: int, what: str):
        w = self.subs[k]
        if what == "type_of":
            return str(w.type_of())
        return str(w.has_return())
